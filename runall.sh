#!/bin/sh
# runs every claimed check (quick tier) and prints one line each; exit 1 if any is not clean
cd /verif || exit 2
rc=0
for p in $(python3 -c "import json;print(' '.join(c['property_id'] for c in json.load(open('MANIFEST.json'))['checks']))"); do
  out=$(./check $p ${1:-quick} 2>&1); e=$?
  echo "$out" | tail -1 | sed "s/^/[exit $e] /"
  [ $e -ne 0 ] && { rc=1; echo "$out" | grep -E "^(VIOLATION|MACHINERY)" | head -5 | cut -c1-220; }
done
exit $rc
