package main

import (
	"fmt"
	"go/token"
	"go/types"
	"os"
	"path/filepath"
	"sort"
	"strings"

	"golang.org/x/tools/go/packages"
	"golang.org/x/tools/go/ssa"
	"golang.org/x/tools/go/ssa/ssautil"
)

const icePath = "github.com/blugelabs/ice/v2"

// World holds the loaded program, the contracts and the global SMT signature.
type World struct {
	DefaultFramed []string // externals without a contract, given the default frame (writes its slice arguments)
	RunningProp string // the property a check run is for ("" in debugging runs over all obligations)
	Fset  *token.FileSet
	Prog  *ssa.Program
	Pkg   *ssa.Package
	TPkg  *types.Package
	Spec  *SpecFile
	Fns   map[string]*ssa.Function // by contract name
	FnAll []*ssa.Function          // every function of package ice incl. closures

	// global SMT signature, accumulated lazily
	sortDecls  []string
	sortSeen   map[string]bool
	funDecls   []string
	funSeen    map[string]bool
	axioms     []string
	heapSort   map[string]Sort // heap variable -> sort
	heapOrder  []string
	structInfo map[string]*types.Struct
	tagOf      map[string]int
	tagNames   []string
	strLits    map[string]string
	ghostField map[string]map[string]Sort // type key -> field -> sort
	ghostVar   map[string]Sort
	ghostFn    map[string]Sort // generic ghost accessors name(x) on any reference
	specFnSig  map[string]*SpecFn

	modsets map[*ssa.Function]map[string]bool
	baseMods map[*ssa.Function]map[string]bool
	pcalls   map[*ssa.Function]map[int]bool
	fnSrc   map[*ssa.Parameter]*fnValSrc
	extraTypes map[string]types.Type // captured variables of the closure whose contract is being typed
	// invariants every API call preserves; assumed across calls of caller-supplied callbacks
	CallbackInv     []*Clause
	CallbackProtect []string
	CallbackProps   []string
	ifaceOf map[string]types.Type // "(pkg.Iface).Method" -> interface type, from invoke sites
	allocs  map[*ssa.Function]bool
	callers map[*ssa.Function][]*ssa.Function

	RepoDir string
	Errors  []string
}

func LoadWorld(repo, preludeDir string) (*World, error) {
	cfg := &packages.Config{
		Mode:       packages.LoadAllSyntax,
		Dir:        repo,
		BuildFlags: []string{"-tags=verif"},
		Env:        append(os.Environ(), "GOFLAGS=-mod=mod", "GOPROXY=off", "GOSUMDB=off", "GOTOOLCHAIN=local"),
	}
	pkgs, err := packages.Load(cfg, ".")
	if err != nil {
		return nil, err
	}
	if packages.PrintErrors(pkgs) > 0 {
		return nil, fmt.Errorf("package load errors")
	}
	prog, spkgs := ssautil.AllPackages(pkgs, ssa.GlobalDebug)
	prog.Build()
	w := &World{
		Fset: prog.Fset, Prog: prog, Pkg: spkgs[0], TPkg: spkgs[0].Pkg,
		Spec: NewSpecFile(), Fns: map[string]*ssa.Function{},
		sortSeen: map[string]bool{}, funSeen: map[string]bool{},
		heapSort: map[string]Sort{}, structInfo: map[string]*types.Struct{},
		tagOf: map[string]int{}, strLits: map[string]string{},
		ghostField: map[string]map[string]Sort{}, ghostVar: map[string]Sort{},
		specFnSig: map[string]*SpecFn{}, RepoDir: repo, ghostFn: map[string]Sort{},
	}
	// all functions of the package, including methods and closures
	seen := map[*ssa.Function]bool{}
	var add func(f *ssa.Function)
	add = func(f *ssa.Function) {
		if f == nil || seen[f] {
			return
		}
		seen[f] = true
		w.FnAll = append(w.FnAll, f)
		for _, a := range f.AnonFuncs {
			add(a)
		}
	}
	for _, m := range w.Pkg.Members {
		switch m := m.(type) {
		case *ssa.Function:
			add(m)
		case *ssa.Type:
			for _, t := range []types.Type{m.Type(), types.NewPointer(m.Type())} {
				ms := prog.MethodSets.MethodSet(t)
				for i := 0; i < ms.Len(); i++ {
					fn := prog.MethodValue(ms.At(i))
					if fn != nil && fn.Pkg == w.Pkg && fn.Synthetic == "" {
						add(fn)
					}
				}
			}
		}
	}
	sort.Slice(w.FnAll, func(i, j int) bool { return w.FnName(w.FnAll[i]) < w.FnName(w.FnAll[j]) })
	for _, f := range w.FnAll {
		w.Fns[w.FnName(f)] = f
	}
	// contracts: prelude (trusted) then the repository's guarded contract files
	pfiles, _ := filepath.Glob(filepath.Join(preludeDir, "*.spec"))
	sort.Strings(pfiles)
	for _, pf := range pfiles {
		b, err := os.ReadFile(pf)
		if err != nil {
			return nil, err
		}
		if err := ParseSpecLines(w.Spec, pf, strings.Split(string(b), "\n"), true); err != nil {
			return nil, err
		}
	}
	cfiles, _ := filepath.Glob(filepath.Join(repo, "*_verif.go"))
	sort.Strings(cfiles)
	for _, cf := range cfiles {
		b, err := os.ReadFile(cf)
		if err != nil {
			return nil, err
		}
		var lines []string
		for _, l := range strings.Split(string(b), "\n") {
			t := strings.TrimSpace(l)
			if strings.HasPrefix(t, "//@") {
				lines = append(lines, strings.TrimPrefix(t, "//@"))
			} else {
				lines = append(lines, "")
			}
		}
		if err := ParseSpecLines(w.Spec, cf, lines, false); err != nil {
			return nil, err
		}
	}
	w.defaultExternalFrames()
	w.initSignature()
	w.computeModsets()
	return w, nil
}

// defaultExternalFrames: a function outside the package that has no contract is modelled as
// returning arbitrary results; it is additionally taken to write the elements of every slice it is
// handed (sort.Strings, copy-like helpers): a caller that passes it memory it does not own then
// loses what it knew about that memory instead of keeping it silently.
func (w *World) defaultExternalFrames() {
	for _, fn := range w.FnAll {
		for _, b := range fn.Blocks {
			for _, ins := range b.Instrs {
				ci, ok := ins.(ssa.CallInstruction)
				if !ok {
					continue
				}
				c := ci.Common()
				if c.IsInvoke() {
					continue
				}
				callee, ok := c.Value.(*ssa.Function)
				if !ok || callee.Pkg == w.Pkg || (callee.Parent() != nil && callee.Parent().Pkg == w.Pkg) {
					continue
				}
				name := extName(callee)
				if _, has := w.Spec.Contracts[name]; has {
					continue
				}
				sig := callee.Signature
				var mods []string
				for i := 0; i < sig.Params().Len(); i++ {
					pv := sig.Params().At(i)
					if sig.Variadic() && i == sig.Params().Len()-1 {
						continue // the argument array of a variadic call is the caller's temporary
					}
					if _, isSl := pv.Type().Underlying().(*types.Slice); isSl && pv.Name() != "" && pv.Name() != "_" {
						mods = append(mods, pv.Name()+"[*]")
					}
				}
				if len(mods) == 0 {
					continue
				}
				w.Spec.Contracts[name] = &Contract{Func: name, Modifies: mods, HasMod: true, Trusted: true,
					Line: "default frame of an unmodelled external", Loops: map[int]*LoopSpec{}, Opts: map[string]string{}}
				w.DefaultFramed = append(w.DefaultFramed, name+" modifies "+strings.Join(mods, ", "))
			}
		}
	}
	sort.Strings(w.DefaultFramed)
}

// FnName is the contract key of a function: RelString relative to package ice.
func (w *World) FnName(f *ssa.Function) string {
	return f.RelString(w.TPkg)
}

func sanitize(s string) string {
	r := strings.NewReplacer("*", "P", "[", "L", "]", "R", " ", "_", "/", "_", ".", "_", "(", "_", ")", "_", ",", "_", "{", "_", "}", "_", "-", "_", ";", "_", ":", "_", "#", "_", "\"", "_", "'", "_", "<", "_", ">", "_", "=", "_", "&", "_", "|", "_", "+", "_", "!", "_", "@", "_")
	return r.Replace(s)
}

func (w *World) typeKey(t types.Type) string {
	return sanitize(types.TypeString(t, func(p *types.Package) string {
		if p == w.TPkg {
			return ""
		}
		return p.Name()
	}))
}

func (w *World) declSort(name, decl string) {
	if !w.sortSeen[name] {
		w.sortSeen[name] = true
		w.sortDecls = append(w.sortDecls, decl)
	}
}

func (w *World) declFun(name, decl string) {
	if !w.funSeen[name] {
		w.funSeen[name] = true
		w.funDecls = append(w.funDecls, decl)
	}
}

func (w *World) addAxiom(ax string) { w.axioms = append(w.axioms, ax) }

// isLocalStruct reports whether t is a struct type we model field-wise
// (declared in package ice, or anonymous).
func (w *World) localStruct(t types.Type) (*types.Struct, string, bool) {
	st, ok := t.Underlying().(*types.Struct)
	if !ok {
		return nil, "", false
	}
	if n, ok := t.(*types.Named); ok {
		if n.Obj().Pkg() != w.TPkg {
			return st, w.typeKey(t), false
		}
		return st, n.Obj().Name(), true
	}
	return st, w.typeKey(t), true
}

// SortOf maps a Go type to an SMT sort.
func (w *World) SortOf(t types.Type) Sort {
	switch u := t.Underlying().(type) {
	case *types.Basic:
		switch {
		case u.Info()&types.IsBoolean != 0:
			return SBool
		case u.Info()&types.IsString != 0:
			return SStr
		default:
			return SInt
		}
	case *types.Slice:
		return SSlice
	case *types.Struct:
		_, key, local := w.localStruct(t)
		if !local {
			return SInt // opaque external struct value
		}
		return w.structSort(t, u, key)
	case *types.Array:
		return ArrSort(SInt, w.SortOf(u.Elem()))
	case *types.Tuple:
		return SInt
	default:
		return SInt // pointers, maps, chans, funcs, interfaces
	}
}

func (w *World) structSort(t types.Type, st *types.Struct, key string) Sort {
	name := "S$" + key
	if w.sortSeen[name] {
		return Sort(name)
	}
	w.sortSeen[name] = true // before recursion
	w.structInfo[key] = st
	var fields []string
	for i := 0; i < st.NumFields(); i++ {
		fs := w.SortOf(st.Field(i).Type())
		fields = append(fields, fmt.Sprintf("(%s$%s %s)", key, st.Field(i).Name(), fs))
	}
	if len(fields) == 0 {
		fields = append(fields, fmt.Sprintf("(%s$$unit Int)", key))
	}
	w.sortDecls = append(w.sortDecls, fmt.Sprintf("(declare-datatypes ((%s 0)) (((mk$%s %s))))", name, key, strings.Join(fields, " ")))
	return Sort(name)
}

// Zero returns the zero value of a Go type as a term.
func (w *World) Zero(t types.Type) Term {
	switch u := t.Underlying().(type) {
	case *types.Basic:
		switch {
		case u.Info()&types.IsBoolean != 0:
			return False
		case u.Info()&types.IsString != 0:
			return w.StrLit("")
		default:
			return IntLit(0)
		}
	case *types.Slice:
		return NilSlice
	case *types.Struct:
		st, key, local := w.localStruct(t)
		if !local {
			return IntLit(0)
		}
		s := w.structSort(t, st, key)
		var args []Term
		for i := 0; i < st.NumFields(); i++ {
			args = append(args, w.Zero(st.Field(i).Type()))
		}
		if len(args) == 0 {
			args = append(args, IntLit(0))
		}
		return App("mk$"+key, s, args...)
	case *types.Array:
		es := w.SortOf(u.Elem())
		return Term{fmt.Sprintf("((as const %s) %s)", ArrSort(SInt, es), w.Zero(u.Elem()).S), ArrSort(SInt, es)}
	default:
		return IntLit(0)
	}
}

func (w *World) StrLit(s string) Term {
	if n, ok := w.strLits[s]; ok {
		return Sym(n, SStr)
	}
	n := fmt.Sprintf("strlit$%d", len(w.strLits))
	w.strLits[s] = n
	return Sym(n, SStr)
}

// Tag returns the dynamic type tag for a type.
func (w *World) Tag(t types.Type) Term {
	k := w.typeKey(t)
	if id, ok := w.tagOf[k]; ok {
		return IntLit(int64(id))
	}
	id := len(w.tagOf) + 1
	w.tagOf[k] = id
	w.tagNames = append(w.tagNames, k)
	return IntLit(int64(id))
}

// Heap registers (if needed) and names a heap variable.
func (w *World) Heap(name string, s Sort) string {
	if old, ok := w.heapSort[name]; ok {
		if old != s {
			panic(fmt.Sprintf("heap %s declared with sorts %s and %s", name, old, s))
		}
		return name
	}
	w.heapSort[name] = s
	w.heapOrder = append(w.heapOrder, name)
	return name
}

func (w *World) FieldHeap(structKey, field string, fs Sort) string {
	return w.Heap("H$"+structKey+"$"+field, ArrSort(SInt, fs))
}

func (w *World) ElemHeap(elem types.Type) string {
	return w.Heap("A$"+w.typeKey(elem), ArrSort(SInt, ArrSort(SInt, w.SortOf(elem))))
}

func (w *World) CellHeap(t types.Type) string {
	return w.Heap("C$"+w.typeKey(t), ArrSort(SInt, w.SortOf(t)))
}

func (w *World) MapHeaps(m *types.Map) (val, dom string) {
	k := w.typeKey(m)
	ks, vs := w.SortOf(m.Key()), w.SortOf(m.Elem())
	val = w.Heap("M$"+k+"$val", ArrSort(SInt, ArrSort(ks, vs)))
	dom = w.Heap("M$"+k+"$dom", ArrSort(SInt, ArrSort(ks, SBool)))
	w.declFun("mapcard$"+k, fmt.Sprintf("(declare-fun mapcard$%s (%s) Int)", k, ArrSort(ks, SBool)))
	return
}

// VisitedHeap: per map type, the set of keys a range iterator has delivered so far.
func (w *World) VisitedHeap(m *types.Map) string {
	return w.Heap("M$"+w.typeKey(m)+"$visited", ArrSort(SInt, ArrSort(w.SortOf(m.Key()), SBool)))
}

func (w *World) SubRef(structKey, field string, p Term) Term {
	fn := "sub$" + structKey + "$" + field
	if !w.funSeen[fn] {
		w.declFun(fn, fmt.Sprintf("(declare-fun %s (Int) Int)", fn))
		w.declFun(fn+"$inv", fmt.Sprintf("(declare-fun %s$inv (Int) Int)", fn))
		tag := len(w.funSeen) + 1000
		w.addAxiom(fmt.Sprintf("(assert (forall ((p Int)) (! (and (= (%s$inv (%s p)) p) (= (root (%s p)) (root p)) (= (subtag (%s p)) %d) (< (%s p) 0)) :pattern ((%s p)))))", fn, fn, fn, fn, tag, fn, fn))
	}
	return App(fn, SInt, p)
}

// GAddr is the (constant, positive, pre-existing) address of a struct-typed global.
func (w *World) GAddr(name string) Term {
	n := "gaddr$" + name
	if !w.funSeen[n] {
		w.declFun(n, fmt.Sprintf("(declare-const %s Int)", n))
		w.addAxiom(fmt.Sprintf("(assert (and (> %s 0) (= (root %s) %s) (= %s %d)))", n, n, n, n, 1000000+len(w.funSeen)))
	}
	return Sym(n, SInt)
}

// FnAddr is the constant denoting a function used as a value.
func (w *World) FnAddr(name string) Term {
	n := "fnaddr$" + sanitize(name)
	if !w.funSeen[n] {
		w.declFun(n, fmt.Sprintf("(declare-const %s Int)", n))
		w.addAxiom(fmt.Sprintf("(assert (= %s %d))", n, 2000000+len(w.funSeen)))
	}
	return Sym(n, SInt)
}

func (w *World) EltRef(arr, idx Term) Term {
	return App("elt", SInt, arr, idx)
}

func (w *World) initSignature() {
	w.sortDecls = append(w.sortDecls,
		"(declare-datatypes ((Slice 0)) (((mk.slice (sl.arr Int) (sl.off Int) (sl.len Int) (sl.cap Int)))))",
		"(declare-sort Str 0)")
	w.sortSeen["Slice"], w.sortSeen["Str"] = true, true
	w.funDecls = append(w.funDecls,
		"(declare-fun gstr.len (Str) Int)",
		"(declare-fun gstr.at (Str Int) Int)",
		"(declare-fun gstr.cat (Str Str) Str)",
		"(declare-fun gstr.sub (Str Int Int) Str)",
		"(declare-fun gstr.lt (Str Str) Bool)",
		"(declare-fun gstr.of ((Array Int Int) Int Int) Str)",
		"(declare-fun root (Int) Int)",
		"(declare-fun subtag (Int) Int)",
		"(declare-fun elt (Int Int) Int)",
		"(declare-fun elt$arr (Int) Int)",
		"(declare-fun elt$idx (Int) Int)",
		"(declare-fun dyntype (Int) Int)",
		"(declare-fun ifaceval (Int) Int)",
		"(declare-fun box (Int Int) Int)",
		"(declare-fun closurefn (Int) Int)",
		"(declare-fun imul (Int Int) Int)",
	)
	w.axioms = append(w.axioms,
		// the product of two symbolic terms: sign and monotonicity facts only
		"(assert (forall ((a Int) (b Int)) (! (=> (and (>= a 0) (>= b 0)) (>= (imul a b) 0)) :pattern ((imul a b)))))",
		"(assert (forall ((a Int) (b Int)) (! (=> (and (>= a 1) (>= b 1)) (and (>= (imul a b) a) (>= (imul a b) b))) :pattern ((imul a b)))))",
		"(assert (forall ((a Int) (b Int)) (! (=> (or (= a 0) (= b 0)) (= (imul a b) 0)) :pattern ((imul a b)))))",
		"(assert (forall ((s Str)) (! (>= (gstr.len s) 0) :pattern ((gstr.len s)))))",
		"(assert (forall ((a (Array Int Int)) (o Int) (l Int)) (! (=> (>= l 0) (= (gstr.len (gstr.of a o l)) l)) :pattern ((gstr.of a o l)))))",
		"(assert (forall ((a Int) (i Int)) (! (and (= (elt$arr (elt a i)) a) (= (elt$idx (elt a i)) i) (= (root (elt a i)) (root a)) (= (subtag (elt a i)) 1) (< (elt a i) 0)) :pattern ((elt a i)))))",
		"(assert (forall ((t Int) (v Int)) (! (and (> (box t v) 0) (= (dyntype (box t v)) t) (= (ifaceval (box t v)) v) (= (root (box t v)) 0)) :pattern ((box t v)))))",
		"(assert (= (root 0) 0))",
	)
	// ghost fields / vars from the spec files
	for _, g := range w.Spec.Ghosts {
		s := w.specSort(g.Typ)
		if g.Type == "*" {
			w.ghostFn[g.Field] = s
			w.Heap("X$_$"+g.Field, ArrSort(SInt, s))
			continue
		}
		if w.ghostField[g.Type] == nil {
			w.ghostField[g.Type] = map[string]Sort{}
		}
		w.ghostField[g.Type][g.Field] = s
		w.Heap("X$"+sanitize(g.Type)+"$"+g.Field, ArrSort(SInt, s))
	}
	for _, gv := range w.Spec.GhostVars {
		s := w.specSort(gv[1])
		w.ghostVar[gv[0]] = s
		w.Heap("G$"+gv[0], s)
	}
	for _, fn := range w.Spec.SpecFns {
		w.specFnSig[fn.Name] = fn
	}
}

// specSort maps a type name used in spec files to a sort.
func (w *World) specSort(t string) Sort {
	switch t {
	case "int", "uint64", "uint32", "uint16", "uint8", "byte", "int64", "uint", "ref", "Int":
		return SInt
	case "bool", "Bool":
		return SBool
	case "string", "Str":
		return SStr
	case "slice", "Slice":
		return SSlice
	case "bytes", "intarr":
		return ArrSort(SInt, SInt)
	case "set":
		return ArrSort(SInt, SBool)
	case "arr2":
		return ArrSort(SInt, ArrSort(SInt, SInt))
	case "setheap":
		return ArrSort(SInt, ArrSort(SInt, SBool))
	}
	if strings.HasPrefix(t, "(") {
		return Sort(t)
	}
	if strings.HasPrefix(t, "S$") {
		return Sort(t)
	}
	panic("unknown spec sort " + t)
}

// Preamble renders the global declarations.
func (w *World) Preamble() string {
	var b strings.Builder
	b.WriteString("(set-option :produce-models true)\n(set-logic ALL)\n")
	for _, d := range w.sortDecls {
		b.WriteString(d + "\n")
	}
	for _, d := range w.funDecls {
		b.WriteString(d + "\n")
	}
	// string literals: distinct, known lengths
	var lits []string
	litLen := map[string]int{}
	for s, n := range w.strLits {
		lits = append(lits, n)
		litLen[n] = len(s)
	}
	sort.Strings(lits) // map order must not leak into the query text (solver behaviour depends on it)
	for _, n := range lits {
		b.WriteString(fmt.Sprintf("(declare-const %s Str)\n(assert (= (gstr.len %s) %d))\n", n, n, litLen[n]))
	}
	if len(lits) > 1 {
		b.WriteString("(assert (distinct " + strings.Join(lits, " ") + "))\n")
	}
	if n, ok := w.strLits[""]; ok {
		b.WriteString(fmt.Sprintf("(assert (forall ((s Str)) (! (=> (= (gstr.len s) 0) (= s %s)) :pattern ((gstr.len s)))))\n", n))
	}
	for _, a := range w.axioms {
		b.WriteString(a + "\n")
	}
	return b.String()
}

func (w *World) errorf(format string, a ...interface{}) {
	w.Errors = append(w.Errors, fmt.Sprintf(format, a...))
}

// intRange returns bounds for a Go integer type (ok=false if not an integer).
func intRange(t types.Type) (lo, hi string, ok bool) {
	b, isB := t.Underlying().(*types.Basic)
	if !isB || b.Info()&types.IsInteger == 0 {
		return "", "", false
	}
	switch b.Kind() {
	case types.Int8:
		return "-128", "127", true
	case types.Int16:
		return "-32768", "32767", true
	case types.Int32:
		return "-2147483648", "2147483647", true
	case types.Int, types.Int64:
		return "-9223372036854775808", "9223372036854775807", true
	case types.Uint8:
		return "0", "255", true
	case types.Uint16:
		return "0", "65535", true
	case types.Uint32:
		return "0", "4294967295", true
	case types.Uint, types.Uint64, types.Uintptr:
		return "0", "18446744073709551615", true
	case types.UntypedInt, types.UntypedRune:
		return "", "", false
	}
	return "", "", false
}
