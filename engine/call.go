package main

import (
	"fmt"
	"os"
	"go/types"
	"sort"
	"strings"

	"golang.org/x/tools/go/ssa"
)

// call translates a call instruction. res is nil for deferred calls.
func (f *fnTrans) call(ins ssa.Instruction, c *ssa.CallCommon, res *ssa.Call) {
	name, callee := f.w.calleeName(c)
	if strings.HasPrefix(name, "builtin:") {
		f.builtin(name, c, res)
		return
	}
	if name == "encoding/binary.Write" {
		f.binaryWrite(ins, c, res)
		return
	}
	if name == "(*github.com/blugelabs/bluge_segment_api.Data).WriteTo" {
		f.dataWriteTo(ins, c, res)
		return
	}
	sig := c.Signature()
	var args []Term
	var argT []types.Type
	if c.IsInvoke() {
		args = append(args, f.val(c.Value))
		argT = append(argT, c.Value.Type())
	}
	for _, a := range c.Args {
		args = append(args, f.val(a))
		argT = append(argT, a.Type())
	}
	var ct *Contract
	calleeSig := sig
	var closureBind *ssa.MakeClosure
	switch {
	case c.IsInvoke():
		ct = f.w.Spec.Contracts[name]
	case callee != nil:
		ct = f.w.Spec.Contracts[name]
		calleeSig = callee.Signature
		if mc, ok := c.Value.(*ssa.MakeClosure); ok {
			closureBind = mc
		}
	default:
		if mc, ok := f.closures[c.Value]; ok {
			callee = mc.Fn.(*ssa.Function)
			name = f.w.FnName(callee)
			ct = f.w.Spec.Contracts[name]
			calleeSig = callee.Signature
			closureBind = mc
		} else if pc := f.paramContract(c.Value); pc != nil {
			ct = pc
			name = pc.Func
		} else {
			name = "funcvalue:" + c.Value.Name()
		}
	}
	inPkg := callee != nil && (callee.Pkg == f.w.Pkg || (callee.Parent() != nil && callee.Parent().Pkg == f.w.Pkg))
	if ct == nil && !inPkg && !strings.HasPrefix(name, "funcvalue:") {
		f.noteExternal(name)
	}
	var impls []*ssa.Function
	if c.IsInvoke() {
		iface := c.Value.Type().Underlying().(*types.Interface)
		for _, g := range f.w.FnAll {
			if g.Signature.Recv() != nil && g.Name() == c.Method.Name() && types.Implements(g.Signature.Recv().Type(), iface) {
				impls = append(impls, g)
			}
		}
	}
	if ct != nil && len(ct.ParamSpec) > 0 && callee != nil {
		f.checkParamContracts(ins, name, ct, callee, c)
	}
	f.extClosureArgs = nil
	if !inPkg {
		// closures handed to code outside the package: it may call them any number of times
		for _, a := range c.Args {
			if mc, ok := stripFnVal(a).(*ssa.MakeClosure); ok {
				f.extClosureArgs = append(f.extClosureArgs, mc)
			}
		}
	}
	userCB := false
	if callee == nil && !c.IsInvoke() {
		_, userCB = f.w.FnValueTargets(c.Value)
	}
	f.userCallback = userCB
	rts := f.applyCall(ins, name, ct, calleeSig, c.IsInvoke(), args, argT, closureBind, impls, f.callMods(c), !inPkg && ct == nil)
	f.userCallback = false
	f.extClosureArgs = nil
	if res != nil {
		switch len(rts) {
		case 0:
		case 1:
			f.vals[res] = rts[0]
		default:
			f.tupleVals[res] = rts
		}
	}
}

type callCase struct {
	guard   Term
	ct      *Contract
	sig     *types.Signature
	names   map[string]TV
	name    string
	reqs    []*Clause
	ens     []*Clause
	mods    []string
	hasMod  bool
}

func (f *fnTrans) bindNames(sig *types.Signature, hasRecv bool, args []Term, argT []types.Type) map[string]TV {
	names := map[string]TV{}
	bind := func(i int, nm string) {
		if i < len(args) && nm != "" && nm != "_" {
			names[nm] = TV{args[i], argT[i]}
		}
	}
	off := 0
	if hasRecv {
		if sig.Recv() != nil {
			bind(0, sig.Recv().Name())
		}
		if len(args) > 0 {
			names["recv"] = TV{args[0], argT[0]}
		}
		off = 1
	}
	for i := 0; i < sig.Params().Len(); i++ {
		bind(i+off, sig.Params().At(i).Name())
		if i+off < len(args) {
			names[argName(i)] = TV{args[i+off], argT[i+off]}
		}
	}
	return names
}

// applyCall is the modular call rule: assert pre, havoc, assume frame and post.
func (f *fnTrans) applyCall(ins ssa.Instruction, name string, ct *Contract, sig *types.Signature, isInvoke bool,
	args []Term, argT []types.Type, closureBind *ssa.MakeClosure, impls []*ssa.Function, mods []string, allocUnknown bool) []Term {
	var cases []*callCase
	hasRecv := sig.Recv() != nil || isInvoke
	if ct != nil {
		cases = append(cases, &callCase{guard: True, ct: ct, sig: sig, names: f.bindNames(sig, hasRecv, args, argT), name: name,
			reqs: ct.Requires, ens: ct.Ensures, mods: ct.Modifies, hasMod: ct.HasMod && (!isInvoke || len(impls) == 0)})
	}
	if isInvoke && len(args) > 0 {
		recv := args[0]
		leaf := True
		for _, g := range impls {
			gt := g.Signature.Recv().Type()
			guard := And(Ne(recv, IntLit(0)), Eq(App("dyntype", SInt, recv), f.w.Tag(gt)))
			leaf = And(leaf, Not(guard))
			gname := f.w.FnName(g)
			gct := f.w.Spec.Contracts[gname]
			if gct == nil {
				continue
			}
			gargT := append([]types.Type{gt}, argT[1:]...)
			cases = append(cases, &callCase{guard: guard, ct: gct, sig: g.Signature, names: f.bindNames(g.Signature, true, args, gargT), name: gname,
				reqs: gct.Requires, ens: gct.Ensures, mods: gct.Modifies, hasMod: gct.HasMod})
		}
		if ct != nil && (len(ct.LeafEnsures) > 0 || len(ct.LeafModifies) > 0) {
			cases = append(cases, &callCase{guard: leaf, ct: ct, sig: sig, names: f.bindNames(sig, true, args, argT), name: name + "[leaf]",
				ens: ct.LeafEnsures, mods: append(append([]string{}, ct.Modifies...), ct.LeafModifies...), hasMod: true})
		}
	}
	if closureBind != nil {
		fnc := closureBind.Fn.(*ssa.Function)
		for _, cs := range cases {
			for i, fv := range fnc.FreeVars {
				cs.names["&"+fv.Name()] = TV{f.val(closureBind.Bindings[i]), fv.Type()}
			}
		}
	}
	if os.Getenv("ICEVC_TRACE") != "" {
		fmt.Fprintf(os.Stderr, "TRACE %s: call %s havocs %v\n", f.name, name, mods)
	}
	pre := f.cur.Clone()
	mkEnv := func(cs *callCase, st *State) *Env {
		e := &Env{w: f.w, names: cs.names, st: st, old: pre, lets: f.letsOf(cs.ct)}
		e.emit = func(t Term) { f.factHere(t) }
		e.topFor = f.topForVersion
		e.wfSeen = f.wfSeenMap()
		if closureBind != nil {
			e.lookup = f.closureLookup(closureBind, st)
			e.oldLookup = f.closureLookup(closureBind, pre)
		}
		return e
	}
	ord := f.callOrdinal(ins, name)
	// objects this function is still building are handed to a callee that takes their type
	// invariant for granted: it must hold by now (unless the callee declares it constructs them)
	if fnVal := f.w.Fns[name]; fnVal != nil && !isInvoke && closureBind == nil {
		cct := ct
		for k, p := range fnVal.Params {
			if k >= len(args) {
				break
			}
			if _, isPtr := p.Type().Underlying().(*types.Pointer); !isPtr {
				continue
			}
			constructing := false
			if cct != nil {
				for _, n := range cct.Constructs {
					if n == p.Name() {
						constructing = true
					}
				}
			}
			if constructing {
				continue
			}
			if inv := f.typeInv(args[k], p.Type()); inv.S != "true" {
				isFresh := Gt(App("root", SInt, args[k]), Sym("G$allocTop@0", SInt))
				o := f.oblige("typeinv", fmt.Sprintf("type invariant of argument %s of %s if the object was built here", p.Name(), name), ins.Pos(), f.allProps, f.here(), Implies(isFresh, inv))
				o.Name = fmt.Sprintf("%s/call:%s#%d/typeinv:%s", f.name, name, ord, p.Name())
			}
		}
	}
	for _, cs := range cases {
		env := mkEnv(cs, pre)
		for i, cl := range cs.reqs {
			t, err := env.EvalBool(cl.Expr)
			if err != nil {
				f.unsupported("%s: requires %q at call: %v", cl.Line, cl.Src, err)
				continue
			}
			props := cl.Props
			class := "pre"
			g := And(f.here(), cs.guard)
			if len(props) == 1 && strings.HasPrefix(props[0], "@") {
				// a named class of library precondition (e.g. @read: storage reads in range):
				// an obligation only where the caller claims that class, otherwise a path assumption
				class = props[0][1:]
				if !f.claimed[class] {
					f.fact(g, t)
					continue
				}
				props = f.safetyProps
			} else if len(props) == 0 {
				// untagged preconditions (mostly of library functions) are safety obligations of the caller
				props = f.safetyProps
			}
			o := f.oblige(class, fmt.Sprintf("precondition of %s: %s", cs.name, cl.Src), ins.Pos(), props, g, t)
			o.Name = fmt.Sprintf("%s/call:%s#%d/pre%d", f.name, cs.name, ord, i)
			f.factOb(g, t)
		}
	}
	// a caller-supplied callback may re-enter the API: what every API call preserves must hold now ...
	if f.userCallback {
		for k, cl := range f.w.CallbackInv {
			env := &Env{w: f.w, names: map[string]TV{}, st: pre, old: pre, lets: map[string]SExpr{}}
			if t, err := env.EvalBool(cl.Expr); err == nil {
				o := f.oblige("callback", fmt.Sprintf("before calling a caller-supplied callback: %s", cl.Src), ins.Pos(), cl.Props, f.here(), t)
				o.Name = fmt.Sprintf("%s/callback:%s#%d/inv%d", f.name, name, ord, k)
				f.factOb(f.here(), t)
			}
		}
	}
	// havoc
	preTop := f.heap("G$allocTop")
	modsTop := allocUnknown
	for _, h := range mods {
		if h == "G$allocTop" {
			modsTop = true
		}
	}
	// the allocation counter first: the new heap versions may refer to objects the callee allocated
	if modsTop {
		f.havocHeap("G$allocTop")
		f.factHere(Ge(f.heap("G$allocTop"), preTop))
	}
	for _, h := range mods {
		if h != "G$allocTop" {
			f.havocHeap(h)
		}
	}
	frameTop := preTop
	if !modsTop {
		frameTop = Term{} // the callee cannot allocate: its frame covers every reference
	}
	for _, cs := range cases {
		if !cs.hasMod {
			continue
		}
		fs := f.frameOfMods(cs.mods, cs.sig, mkEnv(cs, pre))
		for _, h := range mods {
			if fs.whole[h] || h == "G$allocTop" {
				continue
			}
			before, ok := pre.h[h]
			if !ok {
				before = Sym(h+"@0", f.w.heapSort[h])
			}
			f.fact(And(f.here(), cs.guard), f.frameFormula(h, fs.locs[h], before, f.heap(h), frameTop))
		}
	}
	for _, cs := range cases {
		if cs.ct == nil || cs.hasMod || len(cs.ct.Frames) == 0 {
			continue
		}
		fs := f.frameOfMods(cs.ct.Frames, cs.sig, mkEnv(cs, pre))
		inMods := map[string]bool{}
		for _, h := range mods {
			inMods[h] = true
		}
		for h, locs := range fs.locs {
			if !inMods[h] {
				continue
			}
			before, ok := pre.h[h]
			if !ok {
				before = Sym(h+"@0", f.w.heapSort[h])
			}
			f.fact(And(f.here(), cs.guard), f.frameFormula(h, locs, before, f.heap(h), frameTop))
		}
	}
	// closures the external callee may have run: whatever they do stays within their own "frames"
	for _, mc := range f.extClosureArgs {
		fnc := mc.Fn.(*ssa.Function)
		cct := f.w.Spec.Contracts[f.w.FnName(fnc)]
		if cct == nil || len(cct.Frames) == 0 {
			continue
		}
		cenv := &Env{w: f.w, names: map[string]TV{}, st: pre, old: pre, lets: f.letsOf(cct)}
		cenv.lookup = f.closureLookup(mc, pre)
		cenv.oldLookup = cenv.lookup
		saved := f.w.extraTypes
		f.w.extraTypes = map[string]types.Type{}
		for _, fv := range fnc.FreeVars {
			f.w.extraTypes[fv.Name()] = deref(fv.Type())
		}
		fs := f.frameOfMods(cct.Frames, fnc.Signature, cenv)
		f.w.extraTypes = saved
		inMods := map[string]bool{}
		for _, h := range mods {
			inMods[h] = true
		}
		var hs []string
		for h := range fs.locs {
			hs = append(hs, h)
		}
		sort.Strings(hs)
		for _, h := range hs {
			if !inMods[h] {
				continue
			}
			before, ok := pre.h[h]
			if !ok {
				before = Sym(h+"@0", f.w.heapSort[h])
			}
			f.factHere(f.frameFormula(h, fs.locs[h], before, f.heap(h), preTop))
		}
	}
	// ... and is assumed to hold after it
	if f.userCallback {
		for _, cl := range f.w.CallbackInv {
			env := &Env{w: f.w, names: map[string]TV{}, st: f.cur, old: pre, lets: map[string]SExpr{}}
			if t, err := env.EvalBool(cl.Expr); err == nil {
				f.factHere(t)
			}
		}
		inMods := map[string]bool{}
		for _, h := range mods {
			inMods[h] = true
		}
		for _, h := range f.w.CallbackProtect {
			if !inMods[h] {
				continue
			}
			before, ok := pre.h[h]
			if !ok {
				before = Sym(h+"@0", f.w.heapSort[h])
			}
			f.factHere(f.frameFormula(h, nil, before, f.heap(h), preTop))
		}
		f.noteAssumed("caller-supplied callbacks interact with ice only through its public read API (whose schema postconditions are assumed across the callback)")
	}
	// schema frames: callee promises not to touch protected heaps of pre-existing objects
	for _, cs := range cases {
		if cs.ct == nil || len(cs.ct.Protect) == 0 {
			continue
		}
		inMods := map[string]bool{}
		for _, h := range mods {
			inMods[h] = true
		}
		for _, h := range cs.ct.Protect {
			if !inMods[h] {
				continue
			}
			before, ok := pre.h[h]
			if !ok {
				before = Sym(h+"@0", f.w.heapSort[h])
			}
			f.fact(And(f.here(), cs.guard), f.frameFormula(h, nil, before, f.heap(h), preTop))
		}
	}
	// results
	results := sig.Results()
	var rts []Term
	for i := 0; i < results.Len(); i++ {
		rt := results.At(i).Type()
		r := f.fresh(fmt.Sprintf("r%d_%s", i, shortName(name)), f.w.SortOf(rt))
		f.factHere(f.rangeFact(r, rt))
		rts = append(rts, r)
	}
	for _, cs := range cases {
		rs := cs.sig.Results()
		for i := 0; i < rs.Len() && i < len(rts); i++ {
			tv := TV{rts[i], rs.At(i).Type()}
			cs.names[resName(i)] = tv
			if n := rs.At(i).Name(); n != "" && n != "_" {
				if _, clash := cs.names[n]; !clash {
					cs.names[n] = tv
				}
			}
		}
		env := mkEnv(cs, f.cur)
		for _, cl := range cs.ens {
			t, err := env.EvalBool(cl.Expr)
			if err != nil {
				f.unsupported("%s: ensures %q at call: %v", cl.Line, cl.Src, err)
				continue
			}
			f.fact(And(f.here(), cs.guard), t)
		}
		if cs.ct != nil && cs.ct.Trusted {
			f.noteAssumed("trusted contract: " + strings.TrimSuffix(cs.name, "[leaf]"))
		}
	}
	f.historyFacts(mods, pre)
	// Type invariants hold of every finished object at every call boundary: after the callee
	// returns they hold again of the objects this function received and of the objects it
	// handed to the callee complete (the callee owes them; see the typeinv obligations).
	if len(mods) > 0 {
		seen := map[string]bool{}
		again := func(t Term, typ types.Type) {
			if seen[t.S] {
				return
			}
			seen[t.S] = true
			if inv := f.finishedInv(t, typ); inv.S != "true" {
				f.factHere(inv)
			}
		}
		for _, p := range f.fn.Params {
			if !f.isConstructing(p) {
				again(f.vals[p], p.Type())
			}
		}
		if fnVal := f.w.Fns[name]; fnVal != nil && !isInvoke && closureBind == nil {
			for k, p := range fnVal.Params {
				if k >= len(args) {
					break
				}
				constructing := false
				if ct != nil {
					for _, n := range ct.Constructs {
						if n == p.Name() {
							constructing = true
						}
					}
				}
				if !constructing {
					again(args[k], p.Type())
				}
			}
		}
	}
	return rts
}

// binaryWrite expands encoding/binary.Write(w, order, data) for fixed-size
// unsigned integers into one w.Write(p) of the big-endian bytes of data
// (that is what the library does; the expansion itself is trusted).
func (f *fnTrans) binaryWrite(ins ssa.Instruction, c *ssa.CallCommon, res *ssa.Call) {
	w := f.val(c.Args[0])
	data := c.Args[2]
	var size int64
	var val Term
	if mi, ok := data.(*ssa.MakeInterface); ok {
		if bits, signed, ok := typeBits(mi.X.Type()); ok && !signed {
			size = int64(bits / 8)
			val = f.val(mi.X)
		}
	}
	f.noteAssumed("trusted expansion: encoding/binary.Write(w, BigEndian, uintN) == one w.Write of the N/8 big-endian bytes")
	if size == 0 {
		f.unsupported("binary.Write of a non-constant-size value")
		if res != nil {
			f.vals[res] = f.fresh("bwerr", SInt)
		}
		return
	}
	// fresh buffer p with be(p) == val
	r := f.alloc()
	h := f.w.ElemHeap(types.Typ[types.Uint8])
	arr := f.fresh("bebytes", ArrSort(SInt, SInt))
	f.setHeap(h, Store(f.heap(h), r, arr))
	p := f.define("bep", MkSlice(r, IntLit(0), IntLit(size), IntLit(size)))
	fn := fmt.Sprintf("be%d", size*8)
	if _, ok := f.w.specFnSig[fn]; ok {
		f.factHere(Eq(App(fn, SInt, arr, IntLit(0)), val))
	} else {
		f.unsupported("prelude lacks spec function %s", fn)
	}
	f.factHere(Term{fmt.Sprintf("(forall ((i Int)) (! (and (<= 0 (select %s i)) (<= (select %s i) 255)) :pattern ((select %s i))))", arr.S, arr.S, arr.S), SBool})
	rts := f.invokeWrite(ins, c.Args[0], w, p)
	if res != nil && len(rts) == 2 {
		f.vals[res] = rts[1]
	}
}

// dataWriteTo expands (*segment.Data).WriteTo(w) into one w.Write of the whole image
// (memory-backed data does exactly that; file-backed data copies it in pieces, which is
// the same for every writer whose state is a fold over the bytes it accepts). Trusted.
func (f *fnTrans) dataWriteTo(ins ssa.Instruction, c *ssa.CallCommon, res *ssa.Call) {
	d := f.val(c.Args[0])
	w := f.val(c.Args[1])
	f.noteAssumed("trusted expansion: (*segment.Data).WriteTo(w) == one w.Write of the data's whole byte image")
	f.safety("nil", "WriteTo on nil data", ins.Pos(), Ne(d, IntLit(0)))
	r := f.alloc()
	h := f.w.ElemHeap(types.Typ[types.Uint8])
	dl := Select(f.heap("X$_$dlen"), d)
	f.setHeap(h, Store(f.heap(h), r, Select(f.heap("X$_$dbytes"), d)))
	p := f.define("datap", MkSlice(r, IntLit(0), dl, dl))
	f.factHere(Ge(dl, IntLit(0)))
	rts := f.invokeWrite(ins, c.Args[1], w, p)
	if res != nil && len(rts) == 2 {
		f.tupleVals[res] = rts
	}
}

// invokeWrite performs w.Write(p) through the io.Writer interface (with dynamic dispatch).
func (f *fnTrans) invokeWrite(ins ssa.Instruction, wv ssa.Value, w, p Term) []Term {
	name := "(io.Writer).Write"
	ct := f.w.Spec.Contracts[name]
	wt := wv.Type()
	iface := wt.Underlying().(*types.Interface)
	var impls []*ssa.Function
	var mods []string
	set := map[string]bool{}
	var wsig *types.Signature
	for i := 0; i < iface.NumMethods(); i++ {
		if iface.Method(i).Name() == "Write" {
			wsig = iface.Method(i).Type().(*types.Signature)
		}
	}
	if ct != nil {
		for _, h := range f.w.modHeapsOfContract(ct, wsig) {
			set[h] = true
		}
		for _, m := range ct.LeafModifies {
			for _, h := range f.w.modLocHeaps(m, wsig) {
				set[h] = true
			}
		}
	}
	for _, g := range f.w.FnAll {
		if g.Signature.Recv() != nil && g.Name() == "Write" && types.Implements(g.Signature.Recv().Type(), iface) {
			impls = append(impls, g)
			for _, h := range f.w.ModsetOf(g) {
				set[h] = true
			}
		}
	}
	for h := range set {
		mods = append(mods, h)
	}
	sort.Strings(mods)
	byteSlice := types.NewSlice(types.Typ[types.Uint8])
	return f.applyCall(ins, name, ct, wsig, true, []Term{w, p}, []types.Type{wt, byteSlice}, nil, impls, mods, false)
}

func shortName(n string) string {
	if i := strings.LastIndexAny(n, "./)"); i >= 0 && i+1 < len(n) {
		n = n[i+1:]
	}
	return sanitize(n)
}

func (f *fnTrans) letsOf(ct *Contract) map[string]SExpr {
	m := map[string]SExpr{}
	if ct == nil {
		return m
	}
	for _, l := range ct.Lets {
		if ex, err := ParseSpecExpr(l[1]); err == nil {
			m[l[0]] = ex
		}
	}
	return m
}

// closureLookup resolves captured variable names of a closure at a call site.
func (f *fnTrans) closureLookup(mc *ssa.MakeClosure, st *State) func(string) (TV, bool) {
	fnc := mc.Fn.(*ssa.Function)
	return func(n string) (TV, bool) {
		for i, fv := range fnc.FreeVars {
			if fv.Name() == n {
				cell := f.val(mc.Bindings[i])
				et := deref(fv.Type())
				if isStructType(et) {
					return TV{cell, fv.Type()}, true
				}
				h := f.w.CellHeap(et)
				e := &Env{w: f.w}
				return TV{Select(e.heap(st, h), cell), et}, true
			}
		}
		return TV{}, false
	}
}

func (f *fnTrans) callOrdinal(ins ssa.Instruction, name string) int {
	// ordinal of this call among calls to the same callee, in block/instr order
	k := 0
	for _, b := range f.fn.Blocks {
		for _, x := range b.Instrs {
			ci, ok := x.(ssa.CallInstruction)
			if !ok {
				continue
			}
			if x == ins {
				return k
			}
			n, callee := f.w.calleeName(ci.Common())
			if callee == nil && !ci.Common().IsInvoke() {
				if mc, ok := f.closures[ci.Common().Value]; ok {
					n = f.w.FnName(mc.Fn.(*ssa.Function))
				}
			}
			if n == name {
				k++
			}
		}
	}
	return k
}

func (f *fnTrans) noteExternal(name string) {
	for _, e := range f.vc.Externals {
		if e == name {
			return
		}
	}
	f.vc.Externals = append(f.vc.Externals, name)
	sort.Strings(f.vc.Externals)
}

// ---------------------------------------------------------------------------
// builtins

func (f *fnTrans) builtin(name string, c *ssa.CallCommon, res *ssa.Call) {
	set := func(t Term) {
		if res != nil {
			f.vals[res] = t
		}
	}
	switch name {
	case "builtin:len":
		x := f.val(c.Args[0])
		switch {
		case x.Sort == SSlice:
			set(SlLen(x))
		case x.Sort == SStr:
			set(App("gstr.len", SInt, x))
		default:
			if m, ok := c.Args[0].Type().Underlying().(*types.Map); ok {
				_, dom := f.w.MapHeaps(m)
				v := App("mapcard$"+f.w.typeKey(m), SInt, Select(f.heap(dom), x))
				f.factHere(Ge(v, IntLit(0)))
				set(v)
			} else {
				f.unsupported("len of %s", c.Args[0].Type())
				set(f.fresh("len", SInt))
			}
		}
	case "builtin:cap":
		x := f.val(c.Args[0])
		if x.Sort == SSlice {
			set(SlCap(x))
		} else {
			f.unsupported("cap of %s", c.Args[0].Type())
			set(f.fresh("cap", SInt))
		}
	case "builtin:append":
		f.appendBuiltin(c, res)
	case "builtin:copy":
		f.copyBuiltin(c, res)
	case "builtin:delete":
		m := c.Args[0].Type().Underlying().(*types.Map)
		_, dom := f.w.MapHeaps(m)
		r, k := f.val(c.Args[0]), f.val(c.Args[1])
		hd := f.heap(dom)
		f.setHeap(dom, Store(hd, r, Store(Select(hd, r), k, False)))
	case "builtin:panic":
		f.safety("panic", "explicit panic reachable", c.Pos(), False)
	default:
		f.unsupported("builtin %s", name)
		if res != nil {
			set(f.fresh("builtin", f.w.SortOf(res.Type())))
		}
	}
}

func (f *fnTrans) appendBuiltin(c *ssa.CallCommon, res *ssa.Call) {
	s := f.val(c.Args[0])
	sl := c.Args[0].Type().Underlying().(*types.Slice)
	var n Term
	var src Term
	srcIsStr := false
	a1 := f.val(c.Args[1])
	if a1.Sort == SStr {
		n = App("gstr.len", SInt, a1)
		srcIsStr = true
	} else {
		n = SlLen(a1)
	}
	src = a1
	newLen := Add(SlLen(s), n)
	inPlace := Le(newLen, SlCap(s))
	structElem := false
	if st, _, local := f.w.localStruct(sl.Elem()); st != nil && local {
		structElem = true
	}
	// fresh array for the growing case
	r := f.alloc()
	newCap := f.fresh("appcap", SInt)
	f.factHere(Ge(newCap, newLen))
	result := Ite(inPlace, MkSlice(SlArr(s), SlOff(s), newLen, SlCap(s)), MkSlice(r, IntLit(0), newLen, newCap))
	resT := f.define("append", result)
	if structElem {
		f.appendStructElems(sl.Elem(), s, src, n, resT)
	} else {
		h := f.w.ElemHeap(sl.Elem())
		es := f.w.SortOf(sl.Elem())
		oldH := f.heap(h)
		newArr := f.fresh("apparr", ArrSort(SInt, es))
		tgtArr, tgtOff := SlArr(resT), SlOff(resT)
		// contents: prefix kept (fresh case: copied), appended range equals source;
		// stated over the absolute index k so that (select newArr k) is the trigger
		var srcAt func(j string) string
		if srcIsStr {
			srcAt = func(j string) string { return fmt.Sprintf("(gstr.at %s %s)", src.S, j) }
		} else {
			srcAt = func(j string) string {
				return fmt.Sprintf("(select (select %s (sl.arr %s)) (+ (sl.off %s) %s))", oldH.S, src.S, src.S, j)
			}
		}
		oldLen := SlLen(s)
		f.factHere(Term{fmt.Sprintf("(forall ((k Int)) (! (=> (and (<= %s k) (< k (+ %s %s))) (= (select %s k) (select (select %s (sl.arr %s)) (+ (sl.off %s) (- k %s))))) :pattern ((select %s k))))",
			tgtOff.S, tgtOff.S, oldLen.S, newArr.S, oldH.S, s.S, s.S, tgtOff.S, newArr.S), SBool})
		f.factHere(Term{fmt.Sprintf("(forall ((k Int)) (! (=> (and (<= (+ %s %s) k) (< k (+ %s %s %s))) (= (select %s k) %s)) :pattern ((select %s k))))",
			tgtOff.S, oldLen.S, tgtOff.S, oldLen.S, n.S, newArr.S, srcAt(fmt.Sprintf("(- k (+ %s %s))", tgtOff.S, oldLen.S)), newArr.S), SBool})
		// in-place: everything outside [off+oldLen, off+newLen) unchanged
		f.factHere(Implies(inPlace, Term{fmt.Sprintf("(forall ((j Int)) (! (=> (or (< j (+ %s %s)) (>= j (+ %s %s))) (= (select %s j) (select (select %s (sl.arr %s)) j))) :pattern ((select %s j))))",
			tgtOff.S, oldLen.S, tgtOff.S, newLen.S, newArr.S, oldH.S, s.S, newArr.S), SBool}))
		f.setHeap(h, Store(oldH, tgtArr, newArr))
	}
	if res != nil {
		f.vals[res] = resT
	}
}

func (f *fnTrans) appendStructElems(elem types.Type, s, src, n, resT Term) {
	st, key, _ := f.w.localStruct(elem)
	for i := 0; i < st.NumFields(); i++ {
		fl := st.Field(i)
		if isStructType(fl.Type()) {
			continue
		}
		h := f.w.FieldHeap(key, fl.Name(), f.w.SortOf(fl.Type()))
		oldH := f.heap(h)
		f.havocHeap(h)
		newH := f.heap(h)
		oldLen := SlLen(s)
		// copied prefix and appended elements
		f.factHere(Term{fmt.Sprintf("(forall ((j Int)) (! (=> (and (<= 0 j) (< j %s)) (= (select %s (elt (sl.arr %s) (+ (sl.off %s) j))) (select %s (elt (sl.arr %s) (+ (sl.off %s) j))))) :pattern ((elt (sl.arr %s) (+ (sl.off %s) j)))))",
			oldLen.S, newH.S, resT.S, resT.S, oldH.S, s.S, s.S, resT.S, resT.S), SBool})
		f.factHere(Term{fmt.Sprintf("(forall ((j Int)) (! (=> (and (<= 0 j) (< j %s)) (= (select %s (elt (sl.arr %s) (+ (sl.off %s) %s j))) (select %s (elt (sl.arr %s) (+ (sl.off %s) j))))) :pattern ((elt (sl.arr %s) (+ (sl.off %s) %s j)))))",
			n.S, newH.S, resT.S, resT.S, oldLen.S, oldH.S, src.S, src.S, resT.S, resT.S, oldLen.S), SBool})
		// frame: objects other than the written range keep their value
		f.factHere(Term{fmt.Sprintf("(forall ((r Int)) (! (=> (not (and (= (subtag r) 1) (= (elt$arr r) (sl.arr %s)) (>= (elt$idx r) (+ (sl.off %s) %s)) (< (elt$idx r) (+ (sl.off %s) %s %s)))) (= (select %s r) (select %s r))) :pattern ((select %s r))))",
			resT.S, resT.S, oldLen.S, resT.S, oldLen.S, n.S, newH.S, oldH.S, newH.S), SBool})
	}
}

func (f *fnTrans) copyBuiltin(c *ssa.CallCommon, res *ssa.Call) {
	dst, src := f.val(c.Args[0]), f.val(c.Args[1])
	sl := c.Args[0].Type().Underlying().(*types.Slice)
	var srcLen Term
	if src.Sort == SStr {
		srcLen = App("gstr.len", SInt, src)
	} else {
		srcLen = SlLen(src)
	}
	n := f.define("copyn", Ite(Le(SlLen(dst), srcLen), SlLen(dst), srcLen))
	if st, _, local := f.w.localStruct(sl.Elem()); st != nil && local {
		f.unsupported("copy of struct elements")
	} else {
		h := f.w.ElemHeap(sl.Elem())
		es := f.w.SortOf(sl.Elem())
		oldH := f.heap(h)
		newArr := f.fresh("cparr", ArrSort(SInt, es))
		var srcAt string
		if src.Sort == SStr {
			srcAt = fmt.Sprintf("(gstr.at %s j)", src.S)
		} else {
			srcAt = fmt.Sprintf("(select (select %s (sl.arr %s)) (+ (sl.off %s) j))", oldH.S, src.S, src.S)
		}
		srcAtK := strings.ReplaceAll(srcAt, " j)", fmt.Sprintf(" (- k (sl.off %s)))", dst.S))
		f.factHere(Term{fmt.Sprintf("(forall ((k Int)) (! (=> (and (<= (sl.off %s) k) (< k (+ (sl.off %s) %s))) (= (select %s k) %s)) :pattern ((select %s k))))",
			dst.S, dst.S, n.S, newArr.S, srcAtK, newArr.S), SBool})
		f.factHere(Term{fmt.Sprintf("(forall ((j Int)) (! (=> (or (< j (sl.off %s)) (>= j (+ (sl.off %s) %s))) (= (select %s j) (select (select %s (sl.arr %s)) j))) :pattern ((select %s j))))",
			dst.S, dst.S, n.S, newArr.S, oldH.S, dst.S, newArr.S), SBool})
		f.setHeap(h, Store(oldH, SlArr(dst), newArr))
	}
	if res != nil {
		f.vals[res] = n
	}
}

// checkParamContracts: a function value passed for a parameter that carries a
// parameter contract must itself be under a contract containing the same clauses
// (syntactic subsumption; the function's own obligations prove them).
func (f *fnTrans) checkParamContracts(ins ssa.Instruction, name string, ct *Contract, callee *ssa.Function, c *ssa.CallCommon) {
	for i, p := range callee.Params {
		pc := ct.ParamSpec[p.Name()]
		if pc == nil || i >= len(c.Args) {
			continue
		}
		arg := c.Args[i]
		for {
			if ctp, ok := arg.(*ssa.ChangeType); ok {
				arg = ctp.X
				continue
			}
			break
		}
		var fn *ssa.Function
		switch a := arg.(type) {
		case *ssa.MakeClosure:
			fn = a.Fn.(*ssa.Function)
		case *ssa.Function:
			fn = a
		case *ssa.Parameter:
			// forwarded parameter: the caller's own parameter contract must have the clauses
			if mine := f.paramContract(a); mine != nil {
				f.paramSubsumes(ins, name, p.Name(), pc, mine, "parameter "+a.Name())
				continue
			}
		}
		if fn == nil {
			for _, cl := range pc.Ensures {
				o := f.oblige("paramspec", fmt.Sprintf("argument %s of %s must satisfy: %s (unknown function value)", p.Name(), name, cl.Src), ins.Pos(), cl.Props, f.here(), False)
				o.Name = fmt.Sprintf("%s/call:%s#%d/param:%s", f.name, name, f.callOrdinal(ins, name), p.Name())
			}
			continue
		}
		fct := f.w.Spec.Contracts[f.w.FnName(fn)]
		if fct == nil {
			fct = &Contract{}
		}
		f.paramSubsumes(ins, name, p.Name(), pc, fct, f.w.FnName(fn))
	}
}

func (f *fnTrans) paramSubsumes(ins ssa.Instruction, name, pname string, want, have *Contract, who string) {
	for k, cl := range want.Ensures {
		found := false
		for _, h := range have.Ensures {
			if strings.Join(strings.Fields(h.Src), " ") == strings.Join(strings.Fields(cl.Src), " ") {
				found = true
			}
		}
		o := f.oblige("paramspec", fmt.Sprintf("%s passed as %s of %s has the contract clause: %s", who, pname, name, cl.Src), ins.Pos(), cl.Props, f.here(), BoolLit(found))
		o.Name = fmt.Sprintf("%s/call:%s#%d/param:%s/ens%d", f.name, name, f.callOrdinal(ins, name), pname, k)
	}
}
