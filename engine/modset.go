package main

import (
	"go/token"
	"go/types"
	"sort"
	"strings"

	"golang.org/x/tools/go/ssa"
)

// storeHeaps returns the heap variables a store through pointer value p may write.
func (w *World) storeHeaps(p ssa.Value) []string {
	pt, ok := p.Type().Underlying().(*types.Pointer)
	if !ok {
		return nil
	}
	elem := pt.Elem()
	if st, key, local := w.localStruct(elem); st != nil {
		if !local {
			return nil // opaque external struct
		}
		return w.structHeaps(st, key)
	}
	if a, ok := elem.Underlying().(*types.Array); ok {
		return []string{w.ElemHeap(a.Elem())}
	}
	switch v := p.(type) {
	case *ssa.FieldAddr:
		bt := deref(v.X.Type())
		st, key, local := w.localStruct(bt)
		if st == nil || !local {
			return nil
		}
		f := st.Field(v.Field)
		return []string{w.FieldHeap(key, f.Name(), w.SortOf(f.Type()))}
	case *ssa.IndexAddr:
		switch u := v.X.Type().Underlying().(type) {
		case *types.Slice:
			return []string{w.ElemHeap(u.Elem())}
		case *types.Pointer:
			if a, ok := u.Elem().Underlying().(*types.Array); ok {
				return []string{w.ElemHeap(a.Elem())}
			}
		}
	case *ssa.Global:
		return []string{w.Heap("G$"+v.Name(), w.SortOf(elem))}
	}
	return []string{w.CellHeap(elem)}
}

func (w *World) structHeaps(st *types.Struct, key string) []string {
	var out []string
	for i := 0; i < st.NumFields(); i++ {
		f := st.Field(i)
		if fst, fkey, local := w.localStruct(f.Type()); fst != nil {
			if local {
				out = append(out, w.structHeaps(fst, fkey)...)
			}
			continue
		}
		out = append(out, w.FieldHeap(key, f.Name(), w.SortOf(f.Type())))
	}
	return out
}

// calleeName gives the contract key for a call.
func (w *World) calleeName(c *ssa.CallCommon) (name string, fn *ssa.Function) {
	if c.IsInvoke() {
		recv := c.Value.Type()
		return "(" + types.TypeString(recv, shortQual) + ")." + c.Method.Name(), nil
	}
	switch v := c.Value.(type) {
	case *ssa.Function:
		if v.Pkg == w.Pkg || (v.Parent() != nil && v.Parent().Pkg == w.Pkg) {
			return w.FnName(v), v
		}
		return extName(v), v
	case *ssa.Builtin:
		return "builtin:" + v.Name(), nil
	case *ssa.MakeClosure:
		f := v.Fn.(*ssa.Function)
		return w.FnName(f), f
	}
	return "", nil
}

func shortQual(p *types.Package) string { return p.Path() }

// extName renders an external function as pkgpath.Name or (*pkgpath.T).Name.
func extName(f *ssa.Function) string {
	if f.Signature.Recv() != nil {
		rt := f.Signature.Recv().Type()
		return "(" + types.TypeString(rt, shortQual) + ")." + f.Name()
	}
	if f.Pkg != nil {
		return f.Pkg.Pkg.Path() + "." + f.Name()
	}
	return f.String()
}

// modHeapsOfContract resolves a contract's modifies clause to heap names,
// given the Go signature (for typing the location expressions).
func (w *World) modHeapsOfContract(c *Contract, sig *types.Signature) []string {
	var out []string
	for _, m := range c.Modifies {
		out = append(out, w.modLocHeaps(m, sig)...)
	}
	for _, m := range c.LeafModifies {
		out = append(out, w.modLocHeaps(m, sig)...)
	}
	return out
}

// modLocHeaps: "c.n" "dst[*]" "*p" "wfailed" "c.chunkLens[*]" "X$..." (raw heap)
func (w *World) modLocHeaps(loc string, sig *types.Signature) []string {
	loc = strings.TrimPrefix(strings.TrimSpace(loc), "!")
	if i := strings.Index(loc, " if "); i > 0 {
		loc = strings.TrimSpace(loc[:i])
	}
	if _, ok := w.ghostVar[loc]; ok {
		return []string{"G$" + loc}
	}
	if loc == "allocTop" {
		return []string{"G$allocTop"}
	}
	if strings.HasPrefix(loc, "heap:") {
		return []string{strings.TrimPrefix(loc, "heap:")}
	}
	if i := strings.Index(loc, "("); i > 0 {
		if _, ok := w.ghostFn[loc[:i]]; ok {
			return []string{"X$_$" + loc[:i]}
		}
	}
	if obj := w.TPkg.Scope().Lookup(loc); obj != nil {
		if v, ok := obj.(*types.Var); ok {
			return []string{w.Heap("G$"+loc, w.SortOf(v.Type()))}
		}
	}
	if hs, ok := w.wholeFieldHeap(loc); ok {
		return hs
	}
	star := false
	if strings.HasPrefix(loc, "*") {
		star = true
		loc = loc[1:]
	}
	elems := false
	if strings.HasSuffix(loc, "[*]") {
		elems = true
		loc = strings.TrimSuffix(loc, "[*]")
	}
	field := ""
	ownerSrc := loc
	if !star && !elems {
		i := strings.LastIndex(loc, ".")
		if i < 0 {
			w.errorf("modifies: %q is not a location", loc)
			return nil
		}
		ownerSrc, field = loc[:i], loc[i+1:]
	}
	t := w.typeOfSpec(ownerSrc, sig)
	if t == nil {
		w.errorf("modifies: cannot type %q", ownerSrc)
		return nil
	}
	if star {
		return w.storeHeapsOfPointee(deref(t))
	}
	if elems {
		switch u := t.Underlying().(type) {
		case *types.Slice:
			if st, key, local := w.localStruct(u.Elem()); st != nil && local {
				return w.structHeaps(st, key)
			}
			return []string{w.ElemHeap(u.Elem())}
		case *types.Map:
			v, d := w.MapHeaps(u)
			return []string{v, d}
		}
		w.errorf("modifies: %q[*] is neither slice nor map", loc)
		return nil
	}
	ot := deref(t)
	gk := (&Env{w: w}).ghostKey(ot)
	if gf, ok := w.ghostField[gk]; ok {
		if _, ok := gf[field]; ok {
			return []string{"X$" + sanitize(gk) + "$" + field}
		}
	}
	st, key, local := w.localStruct(ot)
	if st == nil || !local {
		w.errorf("modifies: %q: owner is not a local struct", loc)
		return nil
	}
	for j := 0; j < st.NumFields(); j++ {
		if st.Field(j).Name() == field {
			if fst, fkey, flocal := w.localStruct(st.Field(j).Type()); fst != nil {
				if flocal {
					return w.structHeaps(fst, fkey)
				}
				return nil
			}
			return []string{w.FieldHeap(key, field, w.SortOf(st.Field(j).Type()))}
		}
	}
	w.errorf("modifies: no field %s in %s", field, key)
	return nil
}

// typeOfSpec types a spec expression against a signature (terms are dummies).
func (w *World) typeOfSpec(src string, sig *types.Signature) types.Type {
	ex, err := ParseSpecExpr(src)
	if err != nil {
		return nil
	}
	names := map[string]TV{}
	put := func(n string, t types.Type) {
		if n != "" && n != "_" {
			names[n] = TV{Sym("?"+n, w.SortOf(t)), t}
		}
	}
	if sig != nil {
		if r := sig.Recv(); r != nil {
			put(r.Name(), r.Type())
			put("recv", r.Type())
		}
		for i := 0; i < sig.Params().Len(); i++ {
			put(sig.Params().At(i).Name(), sig.Params().At(i).Type())
			put(argName(i), sig.Params().At(i).Type())
		}
		for i := 0; i < sig.Results().Len(); i++ {
			put(sig.Results().At(i).Name(), sig.Results().At(i).Type())
			put(resName(i), sig.Results().At(i).Type())
		}
	}
	for n, t := range w.extraTypes {
		if _, ok := names[n]; !ok {
			put(n, t)
		}
	}
	env := &Env{w: w, names: names, st: NewState(), old: NewState(), lets: map[string]SExpr{}}
	tv, err := env.EvalAny(ex)
	if err != nil {
		return nil
	}
	return tv.Typ
}

func (w *World) storeHeapsOfPointee(elem types.Type) []string {
	if st, key, local := w.localStruct(elem); st != nil {
		if local {
			return w.structHeaps(st, key)
		}
		return nil
	}
	return []string{w.CellHeap(elem)}
}

// typeOfPath types "x.f.g" against a signature's parameters/receiver/results.
func (w *World) typeOfPath(path string, sig *types.Signature) types.Type {
	parts := strings.Split(path, ".")
	var t types.Type
	name := parts[0]
	if sig != nil {
		if r := sig.Recv(); r != nil && (r.Name() == name || name == "recv") {
			t = r.Type()
		}
		for i := 0; i < sig.Params().Len(); i++ {
			p := sig.Params().At(i)
			if p.Name() == name || name == argName(i) {
				t = p.Type()
			}
		}
		for i := 0; i < sig.Results().Len(); i++ {
			p := sig.Results().At(i)
			if (p.Name() != "" && p.Name() == name) || name == resName(i) {
				t = p.Type()
			}
		}
	}
	if t == nil {
		if obj := w.TPkg.Scope().Lookup(name); obj != nil {
			if v, ok := obj.(*types.Var); ok {
				t = v.Type()
			}
		}
	}
	if t == nil {
		return nil
	}
	for _, f := range parts[1:] {
		st, _, _ := w.localStruct(deref(t))
		if st == nil {
			return nil
		}
		found := false
		for j := 0; j < st.NumFields(); j++ {
			if st.Field(j).Name() == f {
				t = st.Field(j).Type()
				found = true
			}
		}
		if !found {
			return nil
		}
	}
	return t
}

func argName(i int) string { return "arg" + itoa(i) }
func resName(i int) string { return "result" + itoa(i) }
func itoa(i int) string {
	if i == 0 {
		return "0"
	}
	s := ""
	for i > 0 {
		s = string(rune('0'+i%10)) + s
		i /= 10
	}
	return s
}

// reentrySet is the set of API functions a caller-supplied callback may call.
var reentryAPI = []string{
	"(*Segment).Dictionary", "(*Segment).VisitStoredFields", "(*Segment).DocumentValueReader",
	"(*Segment).DocsMatchingTerms", "(*Segment).CollectionStats", "(*Segment).Fields", "(*Segment).Count",
	"(*DocumentValueReader).VisitDocumentValues", "(*Dictionary).PostingsList", "(*Dictionary).Iterator",
	"(*Dictionary).Contains", "(*DictionaryIterator).Next", "(*PostingsList).Iterator", "(*PostingsList).Count",
	"(*PostingsIterator).Next", "(*PostingsIterator).Advance",
}

// fnValSrc describes what a function-typed parameter can be bound to.
type fnValSrc struct {
	fns  map[*ssa.Function]bool
	user bool // may be a function supplied from outside the package
}

func isExportedEntry(f *ssa.Function) bool {
	if f.Parent() != nil {
		return false
	}
	if f.Signature.Recv() != nil {
		// methods can be reached through interfaces even if their name is lower-case; be conservative for exported names
		return token.IsExported(f.Name())
	}
	return token.IsExported(f.Name())
}

// computeFnValueSources: for every function-typed parameter of a package function,
// the closures in-package callers pass, and whether an outside caller may bind it.
func (w *World) computeFnValueSources() {
	w.fnSrc = map[*ssa.Parameter]*fnValSrc{}
	get := func(p *ssa.Parameter) *fnValSrc {
		s := w.fnSrc[p]
		if s == nil {
			s = &fnValSrc{fns: map[*ssa.Function]bool{}}
			w.fnSrc[p] = s
		}
		return s
	}
	for _, f := range w.FnAll {
		for _, p := range f.Params {
			if _, ok := p.Type().Underlying().(*types.Signature); ok {
				s := get(p)
				if isExportedEntry(f) {
					s.user = true
				}
			}
		}
	}
	type flow struct {
		from *ssa.Parameter
		to   *ssa.Parameter
	}
	var flows []flow
	for _, f := range w.FnAll {
		for _, b := range f.Blocks {
			for _, ins := range b.Instrs {
				ci, ok := ins.(ssa.CallInstruction)
				if !ok {
					continue
				}
				c := ci.Common()
				var targets []*ssa.Function
				off := 0
				if c.IsInvoke() {
					iface := c.Value.Type().Underlying().(*types.Interface)
					for _, g := range w.FnAll {
						if g.Signature.Recv() != nil && g.Name() == c.Method.Name() && types.Implements(g.Signature.Recv().Type(), iface) {
							targets = append(targets, g)
						}
					}
					off = 1
				} else if g, ok := c.Value.(*ssa.Function); ok && (g.Pkg == w.Pkg || (g.Parent() != nil && g.Parent().Pkg == w.Pkg)) {
					targets = append(targets, g)
				} else if mc, ok := c.Value.(*ssa.MakeClosure); ok {
					targets = append(targets, mc.Fn.(*ssa.Function))
				}
				for _, g := range targets {
					for i, a := range c.Args {
						pi := i + off
						if pi >= len(g.Params) {
							continue
						}
						gp := g.Params[pi]
						if _, ok := gp.Type().Underlying().(*types.Signature); !ok {
							continue
						}
						for {
							if x, ok := a.(*ssa.ChangeType); ok {
								a = x.X
								continue
							}
							break
						}
						switch v := a.(type) {
						case *ssa.MakeClosure:
							get(gp).fns[v.Fn.(*ssa.Function)] = true
						case *ssa.Function:
							get(gp).fns[v] = true
						case *ssa.Parameter:
							flows = append(flows, flow{v, gp})
						case *ssa.Const:
							// nil function value
						default:
							get(gp).user = true // loaded from memory etc.: unknown
						}
					}
				}
			}
		}
	}
	for changed := true; changed; {
		changed = false
		for _, fl := range flows {
			src, dst := get(fl.from), get(fl.to)
			if src.user && !dst.user {
				dst.user = true
				changed = true
			}
			for g := range src.fns {
				if !dst.fns[g] {
					dst.fns[g] = true
					changed = true
				}
			}
		}
	}
}

// FnValueTargets: possible targets of a call through function value v.
func (w *World) FnValueTargets(v ssa.Value) (fns []*ssa.Function, user bool) {
	for {
		if x, ok := v.(*ssa.ChangeType); ok {
			v = x.X
			continue
		}
		break
	}
	switch x := v.(type) {
	case *ssa.MakeClosure:
		return []*ssa.Function{x.Fn.(*ssa.Function)}, false
	case *ssa.Function:
		return []*ssa.Function{x}, false
	case *ssa.Parameter:
		if s := w.fnSrc[x]; s != nil {
			for g := range s.fns {
				fns = append(fns, g)
			}
			sort.Slice(fns, func(i, j int) bool { return w.FnName(fns[i]) < w.FnName(fns[j]) })
			return fns, s.user
		}
	}
	return nil, true
}

// callRec is one call site as the mod-set analysis sees it.
type callRec struct {
	callee *ssa.Function // in-package target (static, closure, or CHA implementor)
	args   []ssa.Value   // aligned with callee.Params (receiver first)
}

func stripFnVal(v ssa.Value) ssa.Value {
	for {
		if x, ok := v.(*ssa.ChangeType); ok {
			v = x.X
			continue
		}
		return v
	}
}

func isFnTyped(v ssa.Value) bool {
	_, ok := v.Type().Underlying().(*types.Signature)
	return ok
}

func (w *World) inPkg(f *ssa.Function) bool {
	return f != nil && (f.Pkg == w.Pkg || (f.Parent() != nil && f.Parent().Pkg == w.Pkg))
}

func (w *World) implsOf(c *ssa.CallCommon) []*ssa.Function {
	var out []*ssa.Function
	iface, ok := c.Value.Type().Underlying().(*types.Interface)
	if !ok {
		return nil
	}
	for _, f := range w.FnAll {
		if f.Signature.Recv() == nil || f.Name() != c.Method.Name() {
			continue
		}
		if types.Implements(f.Signature.Recv().Type(), iface) {
			out = append(out, f)
		}
	}
	return out
}

// writeExpansionMods: heaps touched by the expansion of binary.Write / Data.WriteTo
// into one Write through the io.Writer interface; also returns the in-package Write implementors.
func (w *World) writeExpansionMods(wa ssa.Value) (heaps []string, impls []*ssa.Function) {
	heaps = append(heaps, "G$allocTop", w.ElemHeap(types.Typ[types.Uint8]))
	iface, ok := wa.Type().Underlying().(*types.Interface)
	if !ok {
		return
	}
	if ct, ok := w.Spec.Contracts["(io.Writer).Write"]; ok {
		for i := 0; i < iface.NumMethods(); i++ {
			if iface.Method(i).Name() == "Write" {
				heaps = append(heaps, w.modHeapsOfContract(ct, iface.Method(i).Type().(*types.Signature))...)
			}
		}
	}
	for _, g := range w.FnAll {
		if g.Signature.Recv() != nil && g.Name() == "Write" && types.Implements(g.Signature.Recv().Type(), iface) {
			impls = append(impls, g)
		}
	}
	return
}

func isWriteExpansion(name string) bool {
	return name == "encoding/binary.Write" || name == "(*github.com/blugelabs/bluge_segment_api.Data).WriteTo"
}

// computeModsets: which heap variables each function may write.
//   base[f]   - everything except what calls through f's own function-typed parameters do
//   pcalls[f] - f's parameters (by index) that may be called, directly or after forwarding
//   full[f]   - base[f] plus the effects of whatever can be bound to those parameters
// At a call site the callee's base set is combined with the effects of the actual
// function arguments, so a known closure does not drag in "any caller-supplied callback".
func (w *World) computeModsets() {
	w.computeFnValueSources()
	w.modsets = map[*ssa.Function]map[string]bool{}
	w.baseMods = map[*ssa.Function]map[string]bool{}
	w.pcalls = map[*ssa.Function]map[int]bool{}
	w.ifaceOf = map[string]types.Type{}
	w.allocs = map[*ssa.Function]bool{}
	w.callers = map[*ssa.Function][]*ssa.Function{}
	direct := map[*ssa.Function]map[string]bool{}
	calls := map[*ssa.Function][]callRec{}
	extArgs := map[*ssa.Function][]ssa.Value{} // function values handed to code outside the package
	userCall := map[*ssa.Function]bool{}       // calls a function value of unknown origin
	paramIdx := func(f *ssa.Function, v ssa.Value) int {
		if p, ok := stripFnVal(v).(*ssa.Parameter); ok {
			for i, q := range f.Params {
				if q == p {
					return i
				}
			}
		}
		return -1
	}
	for _, f := range w.FnAll {
		ms := map[string]bool{}
		direct[f] = ms
		w.pcalls[f] = map[int]bool{}
		if ct, ok := w.Spec.Contracts[w.FnName(f)]; ok {
			for _, g := range ct.GhostSets {
				for _, h := range w.modLocHeaps(g[0], f.Signature) {
					ms[h] = true
				}
			}
			for _, cls := range ct.At {
				for _, cl := range cls {
					if cl.Kind == "ghostset" {
						// positional ghost assignment: the accessor's heap (the location may name locals)
						loc := strings.TrimSpace(cl.Src[:strings.Index(cl.Src, "=")])
						if i := strings.Index(loc, "("); i > 0 {
							ms["X$_$"+loc[:i]] = true
						}
					}
				}
			}
		}
		add := func(hs ...string) {
			for _, h := range hs {
				ms[h] = true
			}
		}
		elemHeaps := func(t types.Type) []string {
			sl, ok := t.Underlying().(*types.Slice)
			if !ok {
				return nil
			}
			if st, key, local := w.localStruct(sl.Elem()); st != nil && local {
				return w.structHeaps(st, key)
			}
			return []string{w.ElemHeap(sl.Elem())}
		}
		for _, b := range f.Blocks {
			for _, ins := range b.Instrs {
				switch ins := ins.(type) {
				case *ssa.Store:
					if a, ok := ins.Addr.(*ssa.Alloc); ok && !a.Heap {
						continue
					}
					add(w.storeHeaps(ins.Addr)...)
				case *ssa.MapUpdate:
					if m, ok := ins.Map.Type().Underlying().(*types.Map); ok {
						v, d := w.MapHeaps(m)
						add(v, d)
					}
				case *ssa.Alloc:
					if ins.Heap {
						add("G$allocTop")
						add(w.storeHeaps(ins)...)
					}
				case *ssa.MakeSlice:
					add("G$allocTop")
					add(elemHeaps(ins.Type())...)
				case *ssa.MakeMap:
					v, d := w.MapHeaps(ins.Type().Underlying().(*types.Map))
					add("G$allocTop", v, d)
				case *ssa.MakeClosure, *ssa.MakeInterface:
					add("G$allocTop")
				case *ssa.Range:
					if m, ok := ins.X.Type().Underlying().(*types.Map); ok {
						add("G$allocTop", w.VisitedHeap(m))
					}
				case *ssa.Convert:
					if _, ok := ins.Type().Underlying().(*types.Slice); ok {
						add("G$allocTop")
						add(elemHeaps(ins.Type())...)
					}
				case ssa.CallInstruction:
					c := ins.Common()
					name, callee := w.calleeName(c)
					if strings.HasPrefix(name, "builtin:") {
						switch name {
						case "builtin:append":
							add("G$allocTop")
							add(elemHeaps(c.Args[0].Type())...)
						case "builtin:copy":
							add(elemHeaps(c.Args[0].Type())...)
						case "builtin:delete":
							if m, ok := c.Args[0].Type().Underlying().(*types.Map); ok {
								v, d := w.MapHeaps(m)
								add(v, d)
							}
						}
						continue
					}
					if c.IsInvoke() {
						w.ifaceOf[name] = c.Value.Type()
						if ct, ok := w.Spec.Contracts[name]; ok {
							add(w.modHeapsOfContract(ct, c.Signature())...)
						}
						impls := w.implsOf(c)
						for _, g := range impls {
							calls[f] = append(calls[f], callRec{g, append([]ssa.Value{c.Value}, c.Args...)})
						}
						// function values handed to an interface method may be called by it
						for _, a := range c.Args {
							if isFnTyped(a) {
								extArgs[f] = append(extArgs[f], a)
							}
						}
						continue
					}
					if callee == nil {
						v := stripFnVal(c.Value)
						if i := paramIdx(f, v); i >= 0 {
							w.pcalls[f][i] = true
							continue
						}
						fns, user := w.FnValueTargets(v)
						if user {
							userCall[f] = true
						}
						for _, g := range fns {
							calls[f] = append(calls[f], callRec{g, c.Args})
						}
						continue
					}
					if w.inPkg(callee) {
						if ct, ok := w.Spec.Contracts[name]; ok && ct.Trusted {
							add(w.modHeapsOfContract(ct, callee.Signature)...)
						} else {
							calls[f] = append(calls[f], callRec{callee, c.Args})
						}
						continue
					}
					if isWriteExpansion(name) {
						wa := c.Args[0]
						if name != "encoding/binary.Write" {
							wa = c.Args[1]
						}
						hs, impls := w.writeExpansionMods(wa)
						add(hs...)
						for _, g := range impls {
							calls[f] = append(calls[f], callRec{g, nil})
						}
						continue
					}
					if ct, ok := w.Spec.Contracts[name]; ok {
						add(w.modHeapsOfContract(ct, callee.Signature)...)
					}
					add(w.ifaceSliceArgHeaps(name, c)...)
					for _, a := range c.Args {
						if isFnTyped(a) {
							extArgs[f] = append(extArgs[f], a)
						}
					}
				}
			}
		}
		for _, cr := range calls[f] {
			w.callers[cr.callee] = append(w.callers[cr.callee], f)
		}
	}
	for _, f := range w.FnAll {
		w.baseMods[f] = map[string]bool{}
		w.modsets[f] = map[string]bool{}
		for h := range direct[f] {
			w.baseMods[f][h] = true
			w.modsets[f][h] = true
		}
	}
	union := func(dst map[string]bool, src map[string]bool) bool {
		ch := false
		for h := range src {
			if !dst[h] {
				dst[h] = true
				ch = true
			}
		}
		return ch
	}
	user := map[string]bool{}
	var apiFns []*ssa.Function
	for _, n := range reentryAPI {
		if f, ok := w.Fns[n]; ok {
			apiFns = append(apiFns, f)
		}
	}
	// effect of a function value v occurring in f, added to dst; toParam reports that v is f's parameter q
	effOfArg := func(f *ssa.Function, v ssa.Value, dst map[string]bool, intoBase bool) bool {
		ch := false
		v = stripFnVal(v)
		switch x := v.(type) {
		case *ssa.MakeClosure:
			ch = union(dst, w.modsets[x.Fn.(*ssa.Function)]) || ch
		case *ssa.Function:
			if w.inPkg(x) {
				ch = union(dst, w.modsets[x]) || ch
			}
		case *ssa.Parameter:
			if intoBase {
				return false // deferred: accounted for through pcalls of f
			}
			if src := w.fnSrc[x]; src != nil {
				for g := range src.fns {
					ch = union(dst, w.modsets[g]) || ch
				}
				if src.user {
					ch = union(dst, user) || ch
				}
			} else {
				ch = union(dst, user) || ch
			}
		case *ssa.Const:
		default:
			ch = union(dst, user) || ch
		}
		return ch
	}
	for changed := true; changed; {
		changed = false
		for _, api := range apiFns {
			// a storage read that fails inside the caller's own callback is the callback's to report:
			// the read-failure flag tracks the reads of the call under verification
			for h := range w.modsets[api] {
				if !reentryExempt[h] && !user[h] {
					user[h] = true
					changed = true
				}
			}
		}
		for _, f := range w.FnAll {
			base, full := w.baseMods[f], w.modsets[f]
			for _, cr := range calls[f] {
				changed = union(base, w.baseMods[cr.callee]) || changed
				for p := range w.pcalls[cr.callee] {
					if p >= len(cr.args) {
						changed = union(base, user) || changed
						continue
					}
					if q := paramIdx(f, cr.args[p]); q >= 0 {
						if !w.pcalls[f][q] {
							w.pcalls[f][q] = true
							changed = true
						}
						continue
					}
					changed = effOfArg(f, cr.args[p], base, true) || changed
				}
			}
			for _, a := range extArgs[f] {
				if q := paramIdx(f, a); q >= 0 {
					if !w.pcalls[f][q] {
						w.pcalls[f][q] = true
						changed = true
					}
					continue
				}
				changed = effOfArg(f, a, base, true) || changed
			}
			if userCall[f] {
				changed = union(base, user) || changed
			}
			changed = union(full, base) || changed
			for q := range w.pcalls[f] {
				if q < len(f.Params) {
					changed = effOfArg(f, f.Params[q], full, false) || changed
				}
			}
		}
	}
	for _, f := range w.FnAll {
		w.allocs[f] = w.modsets[f]["G$allocTop"]
	}
}

// CallSiteMods: heaps a static/CHA call of in-package callee g with the given
// arguments (aligned with g.Params) may write, seen from caller f.
func (w *World) CallSiteMods(f, g *ssa.Function, args []ssa.Value) map[string]bool {
	out := map[string]bool{}
	for h := range w.baseMods[g] {
		out[h] = true
	}
	user := func() {
		for _, n := range reentryAPI {
			if a, ok := w.Fns[n]; ok {
				for h := range w.modsets[a] {
					if !reentryExempt[h] {
						out[h] = true
					}
				}
			}
		}
	}
	for p := range w.pcalls[g] {
		if p >= len(args) {
			user()
			continue
		}
		switch x := stripFnVal(args[p]).(type) {
		case *ssa.MakeClosure:
			for h := range w.modsets[x.Fn.(*ssa.Function)] {
				out[h] = true
			}
		case *ssa.Function:
			for h := range w.modsets[x] {
				out[h] = true
			}
		case *ssa.Parameter:
			if src := w.fnSrc[x]; src != nil {
				for fn := range src.fns {
					for h := range w.modsets[fn] {
						out[h] = true
					}
				}
				if src.user {
					user()
				}
			} else {
				user()
			}
		case *ssa.Const:
		default:
			user()
		}
	}
	return out
}

func (w *World) ModsetOf(f *ssa.Function) []string {
	var out []string
	for h := range w.modsets[f] {
		out = append(out, h)
	}
	sort.Strings(out)
	return out
}

// wholeFieldHeap: "T.f" with T a struct type of the package names the whole field heap.
func (w *World) wholeFieldHeap(loc string) ([]string, bool) {
	i := strings.Index(loc, ".")
	if i <= 0 || strings.ContainsAny(loc, "()[]*") {
		return nil, false
	}
	obj, ok := w.TPkg.Scope().Lookup(loc[:i]).(*types.TypeName)
	if !ok {
		return nil, false
	}
	st, key, local := w.localStruct(obj.Type())
	if st == nil || !local {
		return nil, false
	}
	f := loc[i+1:]
	for j := 0; j < st.NumFields(); j++ {
		if st.Field(j).Name() == f {
			if fst, fkey, flocal := w.localStruct(st.Field(j).Type()); fst != nil {
				if flocal {
					return w.structHeaps(fst, fkey), true
				}
				return nil, true
			}
			return []string{w.FieldHeap(key, f, w.SortOf(st.Field(j).Type()))}, true
		}
	}
	return nil, false
}

// ifaceSliceArgHeaps: a function outside the package that has no hand-written contract and is
// handed a slice wrapped in an interface value (sort.Slice(x interface{}, less)) is taken to
// write that slice's elements: the element heaps of every such argument.
func (w *World) ifaceSliceArgHeaps(name string, c *ssa.CallCommon) []string {
	if ct, ok := w.Spec.Contracts[name]; ok && ct.Line != "default frame of an unmodelled external" {
		return nil
	}
	var out []string
	for _, a := range c.Args {
		mi, ok := a.(*ssa.MakeInterface)
		if !ok {
			continue
		}
		sl, ok := mi.X.Type().Underlying().(*types.Slice)
		if !ok {
			continue
		}
		if st, key, local := w.localStruct(sl.Elem()); st != nil && local {
			out = append(out, w.structHeaps(st, key)...)
		} else {
			out = append(out, w.ElemHeap(sl.Elem()))
		}
	}
	return out
}

// reentryExempt: ghost state a caller-supplied callback is taken not to change for the call under
// verification: a read failing inside the callback is the callback's to report (rdfailed), and the
// callback never holds the caller's checked-out pool objects (pooled).
var reentryExempt = map[string]bool{"G$rdfailed": true, "X$_$pooled": true}
