package main

import (
	"go/token"
	"go/types"
	"sort"
	"strings"

	"golang.org/x/tools/go/ssa"
)

// storeHeaps returns the heap variables a store through pointer value p may write.
func (w *World) storeHeaps(p ssa.Value) []string {
	pt, ok := p.Type().Underlying().(*types.Pointer)
	if !ok {
		return nil
	}
	elem := pt.Elem()
	if st, key, local := w.localStruct(elem); st != nil {
		if !local {
			return nil // opaque external struct
		}
		return w.structHeaps(st, key)
	}
	if a, ok := elem.Underlying().(*types.Array); ok {
		return []string{w.ElemHeap(a.Elem())}
	}
	switch v := p.(type) {
	case *ssa.FieldAddr:
		bt := deref(v.X.Type())
		st, key, local := w.localStruct(bt)
		if st == nil || !local {
			return nil
		}
		f := st.Field(v.Field)
		return []string{w.FieldHeap(key, f.Name(), w.SortOf(f.Type()))}
	case *ssa.IndexAddr:
		switch u := v.X.Type().Underlying().(type) {
		case *types.Slice:
			return []string{w.ElemHeap(u.Elem())}
		case *types.Pointer:
			if a, ok := u.Elem().Underlying().(*types.Array); ok {
				return []string{w.ElemHeap(a.Elem())}
			}
		}
	case *ssa.Global:
		return []string{w.Heap("G$"+v.Name(), w.SortOf(elem))}
	}
	return []string{w.CellHeap(elem)}
}

func (w *World) structHeaps(st *types.Struct, key string) []string {
	var out []string
	for i := 0; i < st.NumFields(); i++ {
		f := st.Field(i)
		if fst, fkey, local := w.localStruct(f.Type()); fst != nil {
			if local {
				out = append(out, w.structHeaps(fst, fkey)...)
			}
			continue
		}
		out = append(out, w.FieldHeap(key, f.Name(), w.SortOf(f.Type())))
	}
	return out
}

// calleeName gives the contract key for a call.
func (w *World) calleeName(c *ssa.CallCommon) (name string, fn *ssa.Function) {
	if c.IsInvoke() {
		recv := c.Value.Type()
		return "(" + types.TypeString(recv, shortQual) + ")." + c.Method.Name(), nil
	}
	switch v := c.Value.(type) {
	case *ssa.Function:
		if v.Pkg == w.Pkg || (v.Parent() != nil && v.Parent().Pkg == w.Pkg) {
			return w.FnName(v), v
		}
		return extName(v), v
	case *ssa.Builtin:
		return "builtin:" + v.Name(), nil
	case *ssa.MakeClosure:
		f := v.Fn.(*ssa.Function)
		return w.FnName(f), f
	}
	return "", nil
}

func shortQual(p *types.Package) string { return p.Path() }

// extName renders an external function as pkgpath.Name or (*pkgpath.T).Name.
func extName(f *ssa.Function) string {
	if f.Signature.Recv() != nil {
		rt := f.Signature.Recv().Type()
		return "(" + types.TypeString(rt, shortQual) + ")." + f.Name()
	}
	if f.Pkg != nil {
		return f.Pkg.Pkg.Path() + "." + f.Name()
	}
	return f.String()
}

// modHeapsOfContract resolves a contract's modifies clause to heap names,
// given the Go signature (for typing the location expressions).
func (w *World) modHeapsOfContract(c *Contract, sig *types.Signature) []string {
	var out []string
	for _, m := range c.Modifies {
		out = append(out, w.modLocHeaps(m, sig)...)
	}
	for _, m := range c.LeafModifies {
		out = append(out, w.modLocHeaps(m, sig)...)
	}
	return out
}

// modLocHeaps: "c.n" "dst[*]" "*p" "wfailed" "c.chunkLens[*]" "X$..." (raw heap)
func (w *World) modLocHeaps(loc string, sig *types.Signature) []string {
	loc = strings.TrimSpace(loc)
	if i := strings.Index(loc, " if "); i > 0 {
		loc = strings.TrimSpace(loc[:i])
	}
	if _, ok := w.ghostVar[loc]; ok {
		return []string{"G$" + loc}
	}
	if loc == "allocTop" {
		return []string{"G$allocTop"}
	}
	if strings.HasPrefix(loc, "heap:") {
		return []string{strings.TrimPrefix(loc, "heap:")}
	}
	if i := strings.Index(loc, "("); i > 0 {
		if _, ok := w.ghostFn[loc[:i]]; ok {
			return []string{"X$_$" + loc[:i]}
		}
	}
	if obj := w.TPkg.Scope().Lookup(loc); obj != nil {
		if v, ok := obj.(*types.Var); ok {
			return []string{w.Heap("G$"+loc, w.SortOf(v.Type()))}
		}
	}
	if hs, ok := w.wholeFieldHeap(loc); ok {
		return hs
	}
	star := false
	if strings.HasPrefix(loc, "*") {
		star = true
		loc = loc[1:]
	}
	elems := false
	if strings.HasSuffix(loc, "[*]") {
		elems = true
		loc = strings.TrimSuffix(loc, "[*]")
	}
	field := ""
	ownerSrc := loc
	if !star && !elems {
		i := strings.LastIndex(loc, ".")
		if i < 0 {
			w.errorf("modifies: %q is not a location", loc)
			return nil
		}
		ownerSrc, field = loc[:i], loc[i+1:]
	}
	t := w.typeOfSpec(ownerSrc, sig)
	if t == nil {
		w.errorf("modifies: cannot type %q", ownerSrc)
		return nil
	}
	if star {
		return w.storeHeapsOfPointee(deref(t))
	}
	if elems {
		switch u := t.Underlying().(type) {
		case *types.Slice:
			if st, key, local := w.localStruct(u.Elem()); st != nil && local {
				return w.structHeaps(st, key)
			}
			return []string{w.ElemHeap(u.Elem())}
		case *types.Map:
			v, d := w.MapHeaps(u)
			return []string{v, d}
		}
		w.errorf("modifies: %q[*] is neither slice nor map", loc)
		return nil
	}
	ot := deref(t)
	gk := (&Env{w: w}).ghostKey(ot)
	if gf, ok := w.ghostField[gk]; ok {
		if _, ok := gf[field]; ok {
			return []string{"X$" + sanitize(gk) + "$" + field}
		}
	}
	st, key, local := w.localStruct(ot)
	if st == nil || !local {
		w.errorf("modifies: %q: owner is not a local struct", loc)
		return nil
	}
	for j := 0; j < st.NumFields(); j++ {
		if st.Field(j).Name() == field {
			if fst, fkey, flocal := w.localStruct(st.Field(j).Type()); fst != nil {
				if flocal {
					return w.structHeaps(fst, fkey)
				}
				return nil
			}
			return []string{w.FieldHeap(key, field, w.SortOf(st.Field(j).Type()))}
		}
	}
	w.errorf("modifies: no field %s in %s", field, key)
	return nil
}

// typeOfSpec types a spec expression against a signature (terms are dummies).
func (w *World) typeOfSpec(src string, sig *types.Signature) types.Type {
	ex, err := ParseSpecExpr(src)
	if err != nil {
		return nil
	}
	names := map[string]TV{}
	put := func(n string, t types.Type) {
		if n != "" && n != "_" {
			names[n] = TV{Sym("?"+n, w.SortOf(t)), t}
		}
	}
	if sig != nil {
		if r := sig.Recv(); r != nil {
			put(r.Name(), r.Type())
			put("recv", r.Type())
		}
		for i := 0; i < sig.Params().Len(); i++ {
			put(sig.Params().At(i).Name(), sig.Params().At(i).Type())
			put(argName(i), sig.Params().At(i).Type())
		}
		for i := 0; i < sig.Results().Len(); i++ {
			put(sig.Results().At(i).Name(), sig.Results().At(i).Type())
			put(resName(i), sig.Results().At(i).Type())
		}
	}
	env := &Env{w: w, names: names, st: NewState(), old: NewState(), lets: map[string]SExpr{}}
	tv, err := env.EvalAny(ex)
	if err != nil {
		return nil
	}
	return tv.Typ
}

func (w *World) storeHeapsOfPointee(elem types.Type) []string {
	if st, key, local := w.localStruct(elem); st != nil {
		if local {
			return w.structHeaps(st, key)
		}
		return nil
	}
	return []string{w.CellHeap(elem)}
}

// typeOfPath types "x.f.g" against a signature's parameters/receiver/results.
func (w *World) typeOfPath(path string, sig *types.Signature) types.Type {
	parts := strings.Split(path, ".")
	var t types.Type
	name := parts[0]
	if sig != nil {
		if r := sig.Recv(); r != nil && (r.Name() == name || name == "recv") {
			t = r.Type()
		}
		for i := 0; i < sig.Params().Len(); i++ {
			p := sig.Params().At(i)
			if p.Name() == name || name == argName(i) {
				t = p.Type()
			}
		}
		for i := 0; i < sig.Results().Len(); i++ {
			p := sig.Results().At(i)
			if (p.Name() != "" && p.Name() == name) || name == resName(i) {
				t = p.Type()
			}
		}
	}
	if t == nil {
		if obj := w.TPkg.Scope().Lookup(name); obj != nil {
			if v, ok := obj.(*types.Var); ok {
				t = v.Type()
			}
		}
	}
	if t == nil {
		return nil
	}
	for _, f := range parts[1:] {
		st, _, _ := w.localStruct(deref(t))
		if st == nil {
			return nil
		}
		found := false
		for j := 0; j < st.NumFields(); j++ {
			if st.Field(j).Name() == f {
				t = st.Field(j).Type()
				found = true
			}
		}
		if !found {
			return nil
		}
	}
	return t
}

func argName(i int) string { return "arg" + itoa(i) }
func resName(i int) string { return "result" + itoa(i) }
func itoa(i int) string {
	if i == 0 {
		return "0"
	}
	s := ""
	for i > 0 {
		s = string(rune('0'+i%10)) + s
		i /= 10
	}
	return s
}

// reentrySet is the set of API functions a caller-supplied callback may call.
var reentryAPI = []string{
	"(*Segment).Dictionary", "(*Segment).VisitStoredFields", "(*Segment).DocumentValueReader",
	"(*Segment).DocsMatchingTerms", "(*Segment).CollectionStats", "(*Segment).Fields", "(*Segment).Count",
	"(*DocumentValueReader).VisitDocumentValues", "(*Dictionary).PostingsList", "(*Dictionary).Iterator",
	"(*Dictionary).Contains", "(*DictionaryIterator).Next", "(*PostingsList).Iterator", "(*PostingsList).Count",
	"(*PostingsIterator).Next", "(*PostingsIterator).Advance",
}

// fnValSrc describes what a function-typed parameter can be bound to.
type fnValSrc struct {
	fns  map[*ssa.Function]bool
	user bool // may be a function supplied from outside the package
}

func isExportedEntry(f *ssa.Function) bool {
	if f.Parent() != nil {
		return false
	}
	if f.Signature.Recv() != nil {
		// methods can be reached through interfaces even if their name is lower-case; be conservative for exported names
		return token.IsExported(f.Name())
	}
	return token.IsExported(f.Name())
}

// computeFnValueSources: for every function-typed parameter of a package function,
// the closures in-package callers pass, and whether an outside caller may bind it.
func (w *World) computeFnValueSources() {
	w.fnSrc = map[*ssa.Parameter]*fnValSrc{}
	get := func(p *ssa.Parameter) *fnValSrc {
		s := w.fnSrc[p]
		if s == nil {
			s = &fnValSrc{fns: map[*ssa.Function]bool{}}
			w.fnSrc[p] = s
		}
		return s
	}
	for _, f := range w.FnAll {
		for _, p := range f.Params {
			if _, ok := p.Type().Underlying().(*types.Signature); ok {
				s := get(p)
				if isExportedEntry(f) {
					s.user = true
				}
			}
		}
	}
	type flow struct {
		from *ssa.Parameter
		to   *ssa.Parameter
	}
	var flows []flow
	for _, f := range w.FnAll {
		for _, b := range f.Blocks {
			for _, ins := range b.Instrs {
				ci, ok := ins.(ssa.CallInstruction)
				if !ok {
					continue
				}
				c := ci.Common()
				var targets []*ssa.Function
				off := 0
				if c.IsInvoke() {
					iface := c.Value.Type().Underlying().(*types.Interface)
					for _, g := range w.FnAll {
						if g.Signature.Recv() != nil && g.Name() == c.Method.Name() && types.Implements(g.Signature.Recv().Type(), iface) {
							targets = append(targets, g)
						}
					}
					off = 1
				} else if g, ok := c.Value.(*ssa.Function); ok && (g.Pkg == w.Pkg || (g.Parent() != nil && g.Parent().Pkg == w.Pkg)) {
					targets = append(targets, g)
				} else if mc, ok := c.Value.(*ssa.MakeClosure); ok {
					targets = append(targets, mc.Fn.(*ssa.Function))
				}
				for _, g := range targets {
					for i, a := range c.Args {
						pi := i + off
						if pi >= len(g.Params) {
							continue
						}
						gp := g.Params[pi]
						if _, ok := gp.Type().Underlying().(*types.Signature); !ok {
							continue
						}
						for {
							if x, ok := a.(*ssa.ChangeType); ok {
								a = x.X
								continue
							}
							break
						}
						switch v := a.(type) {
						case *ssa.MakeClosure:
							get(gp).fns[v.Fn.(*ssa.Function)] = true
						case *ssa.Function:
							get(gp).fns[v] = true
						case *ssa.Parameter:
							flows = append(flows, flow{v, gp})
						case *ssa.Const:
							// nil function value
						default:
							get(gp).user = true // loaded from memory etc.: unknown
						}
					}
				}
			}
		}
	}
	for changed := true; changed; {
		changed = false
		for _, fl := range flows {
			src, dst := get(fl.from), get(fl.to)
			if src.user && !dst.user {
				dst.user = true
				changed = true
			}
			for g := range src.fns {
				if !dst.fns[g] {
					dst.fns[g] = true
					changed = true
				}
			}
		}
	}
}

// FnValueTargets: possible targets of a call through function value v.
func (w *World) FnValueTargets(v ssa.Value) (fns []*ssa.Function, user bool) {
	for {
		if x, ok := v.(*ssa.ChangeType); ok {
			v = x.X
			continue
		}
		break
	}
	switch x := v.(type) {
	case *ssa.MakeClosure:
		return []*ssa.Function{x.Fn.(*ssa.Function)}, false
	case *ssa.Function:
		return []*ssa.Function{x}, false
	case *ssa.Parameter:
		if s := w.fnSrc[x]; s != nil {
			for g := range s.fns {
				fns = append(fns, g)
			}
			sort.Slice(fns, func(i, j int) bool { return w.FnName(fns[i]) < w.FnName(fns[j]) })
			return fns, s.user
		}
	}
	return nil, true
}

func (w *World) computeModsets() {
	w.computeFnValueSources()
	w.modsets = map[*ssa.Function]map[string]bool{}
	w.ifaceOf = map[string]types.Type{}
	w.allocs = map[*ssa.Function]bool{}
	w.callers = map[*ssa.Function][]*ssa.Function{}
	type edge struct{ from, to *ssa.Function }
	var edges []edge
	reentrant := map[*ssa.Function]bool{}
	// implementors of interface methods inside the package (CHA)
	impl := func(c *ssa.CallCommon) []*ssa.Function {
		var out []*ssa.Function
		for _, f := range w.FnAll {
			if f.Signature.Recv() == nil || f.Name() != c.Method.Name() {
				continue
			}
			if types.Implements(f.Signature.Recv().Type(), c.Value.Type().Underlying().(*types.Interface)) {
				out = append(out, f)
			}
		}
		return out
	}
	for _, f := range w.FnAll {
		ms := map[string]bool{}
		w.modsets[f] = ms
		if ct, ok := w.Spec.Contracts[w.FnName(f)]; ok {
			for _, g := range ct.GhostSets {
				for _, h := range w.modLocHeaps(g[0], f.Signature) {
					ms[h] = true
				}
			}
		}
		for _, b := range f.Blocks {
			for _, ins := range b.Instrs {
				switch ins := ins.(type) {
				case *ssa.Store:
					// stores into fresh local cells of this function are invisible outside
					if a, ok := ins.Addr.(*ssa.Alloc); ok && !a.Heap {
						continue
					}
					for _, h := range w.storeHeaps(ins.Addr) {
						ms[h] = true
					}
				case *ssa.MapUpdate:
					if m, ok := ins.Map.Type().Underlying().(*types.Map); ok {
						v, d := w.MapHeaps(m)
						ms[v], ms[d] = true, true
					}
				case *ssa.Alloc:
					if ins.Heap {
						w.allocs[f] = true
						ms["G$allocTop"] = true
						// zero-initialisation writes the fresh object's heaps
						for _, h := range w.storeHeaps(ins) {
							ms[h] = true
						}
					}
				case *ssa.MakeSlice:
					w.allocs[f] = true
					ms["G$allocTop"] = true
					sl := ins.Type().Underlying().(*types.Slice)
					if st, key, local := w.localStruct(sl.Elem()); st != nil && local {
						for _, h := range w.structHeaps(st, key) {
							ms[h] = true
						}
					} else {
						ms[w.ElemHeap(sl.Elem())] = true
					}
				case *ssa.MakeMap:
					w.allocs[f] = true
					ms["G$allocTop"] = true
					v, d := w.MapHeaps(ins.Type().Underlying().(*types.Map))
					ms[v], ms[d] = true, true
				case *ssa.MakeClosure, *ssa.MakeInterface:
					ms["G$allocTop"] = true
				case ssa.CallInstruction:
					c := ins.Common()
					name, callee := w.calleeName(c)
					if strings.HasPrefix(name, "builtin:") {
						switch name {
						case "builtin:append":
							w.allocs[f] = true
							ms["G$allocTop"] = true
							if sl, ok := c.Args[0].Type().Underlying().(*types.Slice); ok {
								if st, key, local := w.localStruct(sl.Elem()); st != nil && local {
									for _, h := range w.structHeaps(st, key) {
										ms[h] = true
									}
								} else {
									ms[w.ElemHeap(sl.Elem())] = true
								}
							}
						case "builtin:copy":
							if sl, ok := c.Args[0].Type().Underlying().(*types.Slice); ok {
								ms[w.ElemHeap(sl.Elem())] = true
							}
						case "builtin:delete":
							if m, ok := c.Args[0].Type().Underlying().(*types.Map); ok {
								v, d := w.MapHeaps(m)
								ms[v], ms[d] = true, true
							}
						}
						continue
					}
					if c.IsInvoke() {
						w.ifaceOf[name] = c.Value.Type()
						if ct, ok := w.Spec.Contracts[name]; ok {
							for _, h := range w.modHeapsOfContract(ct, c.Signature()) {
								ms[h] = true
							}
						}
						for _, g := range impl(c) {
							edges = append(edges, edge{f, g})
						}
						continue
					}
					if callee == nil {
						// call of a function value: one of the closures in-package callers bind,
						// and/or a caller-supplied callback (which may re-enter the read API)
						fns, user := w.FnValueTargets(c.Value)
						if user {
							reentrant[f] = true
						}
						for _, g := range fns {
							edges = append(edges, edge{f, g})
						}
						continue
					}
					if callee.Pkg == w.Pkg || (callee.Parent() != nil && callee.Parent().Pkg == w.Pkg) {
						if ct, ok := w.Spec.Contracts[name]; ok && ct.Trusted {
							for _, h := range w.modHeapsOfContract(ct, callee.Signature) {
								ms[h] = true
							}
						} else {
							edges = append(edges, edge{f, callee})
						}
						continue
					}
					if name == "encoding/binary.Write" || name == "(*github.com/blugelabs/bluge_segment_api.Data).WriteTo" {
						// expanded into an io.Writer.Write through the interface
						ms["G$allocTop"] = true
						ms[w.ElemHeap(types.Typ[types.Uint8])] = true
						var wa ssa.Value = c.Args[0]
						if name != "encoding/binary.Write" {
							wa = c.Args[1]
						}
						if iface, ok := wa.Type().Underlying().(*types.Interface); ok {
							if ct, ok := w.Spec.Contracts["(io.Writer).Write"]; ok {
								for i := 0; i < iface.NumMethods(); i++ {
									if iface.Method(i).Name() == "Write" {
										for _, h := range w.modHeapsOfContract(ct, iface.Method(i).Type().(*types.Signature)) {
											ms[h] = true
										}
									}
								}
							}
							for _, g := range w.FnAll {
								if g.Signature.Recv() != nil && g.Name() == "Write" && types.Implements(g.Signature.Recv().Type(), iface) {
									edges = append(edges, edge{f, g})
								}
							}
						}
						continue
					}
					if ct, ok := w.Spec.Contracts[name]; ok {
						for _, h := range w.modHeapsOfContract(ct, callee.Signature) {
							ms[h] = true
						}
					}
				}
			}
		}
	}
	for _, e := range edges {
		w.callers[e.to] = append(w.callers[e.to], e.from)
	}
	// fixpoint
	apiFns := []*ssa.Function{}
	for _, n := range reentryAPI {
		if f, ok := w.Fns[n]; ok {
			apiFns = append(apiFns, f)
		}
	}
	for changed := true; changed; {
		changed = false
		for _, e := range edges {
			for h := range w.modsets[e.to] {
				if !w.modsets[e.from][h] {
					w.modsets[e.from][h] = true
					changed = true
				}
			}
			if w.allocs[e.to] && !w.allocs[e.from] {
				w.allocs[e.from] = true
				changed = true
			}
			if reentrant[e.to] && !reentrant[e.from] {
				reentrant[e.from] = true
				changed = true
			}
		}
		for f := range reentrant {
			for _, api := range apiFns {
				for h := range w.modsets[api] {
					if !w.modsets[f][h] {
						w.modsets[f][h] = true
						changed = true
					}
				}
			}
		}
	}
}

func (w *World) ModsetOf(f *ssa.Function) []string {
	var out []string
	for h := range w.modsets[f] {
		out = append(out, h)
	}
	sort.Strings(out)
	return out
}

// wholeFieldHeap: "T.f" with T a struct type of the package names the whole field heap.
func (w *World) wholeFieldHeap(loc string) ([]string, bool) {
	i := strings.Index(loc, ".")
	if i <= 0 || strings.ContainsAny(loc, "()[]*") {
		return nil, false
	}
	obj, ok := w.TPkg.Scope().Lookup(loc[:i]).(*types.TypeName)
	if !ok {
		return nil, false
	}
	st, key, local := w.localStruct(obj.Type())
	if st == nil || !local {
		return nil, false
	}
	f := loc[i+1:]
	for j := 0; j < st.NumFields(); j++ {
		if st.Field(j).Name() == f {
			if fst, fkey, flocal := w.localStruct(st.Field(j).Type()); fst != nil {
				if flocal {
					return w.structHeaps(fst, fkey), true
				}
				return nil, true
			}
			return []string{w.FieldHeap(key, f, w.SortOf(st.Field(j).Type()))}, true
		}
	}
	return nil, false
}
