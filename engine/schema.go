package main

import (
	"fmt"
	"go/types"
	"sort"
	"strings"

	"golang.org/x/tools/go/ssa"
)

func mustClause(kind, src string, props []string, line string) *Clause {
	e, err := ParseSpecExpr(src)
	if err != nil {
		panic(fmt.Sprintf("schema clause %q: %v", src, err))
	}
	cl := &Clause{Kind: kind, Props: props, Src: src, Expr: e, Line: line}
	// schema clauses carry stable names (obligation names must not depend on how many
	// clauses the hand-written contract of the function happens to have)
	if kind == "ensures" {
		switch {
		case line == "schema:lock":
			cl.Name = "no_lock_held"
		case line == "schema:err" && strings.Contains(src, "==> result"):
			cl.Name = "failure_surfaces_as_error"
		case line == "schema:err" && strings.HasPrefix(src, "old("):
			cl.Name = "failure_flag_sticky"
		case line == "schema:err":
			cl.Name = "failure_flag_unchanged"
		}
	}
	if line == "schema:err" && cl.Name != "" {
		for _, gv := range []string{"wfailed", "cancelled", "rdfailed"} {
			if strings.Contains(src, gv) {
				cl.Name += ":" + gv
			}
		}
	}
	return cl
}

func (w *World) contractFor(name string) *Contract {
	c := w.Spec.Contracts[name]
	if c == nil {
		c = &Contract{Func: name, Loops: map[int]*LoopSpec{}, Opts: map[string]string{}, Line: "schema"}
		w.Spec.Contracts[name] = c
		w.Spec.Order = append(w.Spec.Order, name)
	}
	return c
}

func isErrorType(t types.Type) bool {
	n, ok := t.(*types.Named)
	return ok && n.Obj().Pkg() == nil && n.Obj().Name() == "error"
}

// reachFrom: functions of the package reachable from the named roots
// (static calls, closures created, CHA for interface invokes).
func (w *World) reachFrom(roots []string) map[*ssa.Function]bool {
	seen := map[*ssa.Function]bool{}
	var stack []*ssa.Function
	for _, r := range roots {
		if f, ok := w.Fns[r]; ok {
			stack = append(stack, f)
		}
	}
	for len(stack) > 0 {
		f := stack[len(stack)-1]
		stack = stack[:len(stack)-1]
		if seen[f] {
			continue
		}
		seen[f] = true
		for _, b := range f.Blocks {
			for _, ins := range b.Instrs {
				if mc, ok := ins.(*ssa.MakeClosure); ok {
					stack = append(stack, mc.Fn.(*ssa.Function))
				}
				ci, ok := ins.(ssa.CallInstruction)
				if !ok {
					continue
				}
				c := ci.Common()
				if c.IsInvoke() {
					iface := c.Value.Type().Underlying().(*types.Interface)
					for _, g := range w.FnAll {
						if g.Signature.Recv() != nil && g.Name() == c.Method.Name() && types.Implements(g.Signature.Recv().Type(), iface) {
							stack = append(stack, g)
						}
					}
					continue
				}
				if callee, ok := c.Value.(*ssa.Function); ok {
					if callee.Pkg == w.Pkg || (callee.Parent() != nil && callee.Parent().Pkg == w.Pkg) {
						stack = append(stack, callee)
					}
				}
			}
		}
	}
	return seen
}

var readAPIRoots = []string{
	"(*Segment).Dictionary", "(*Segment).VisitStoredFields", "(*Segment).DocumentValueReader",
	"(*Segment).DocsMatchingTerms", "(*Segment).CollectionStats", "(*Segment).Fields", "(*Segment).Count",
	"(*Segment).WriteTo", "(*Segment).Size", "(*Segment).Type", "(*Segment).Version", "(*Segment).CRC",
	"(*Segment).ChunkMode", "(*Segment).NumDocs", "(*Segment).FieldsIndexOffset", "(*Segment).StoredIndexOffset", "(*Segment).DocValueOffset",
	"(*DocumentValueReader).VisitDocumentValues", "(*Dictionary).PostingsList", "(*Dictionary).Iterator",
	"(*Dictionary).Contains", "(*Dictionary).Close", "(*DictionaryIterator).Next", "(*DictionaryIterator).Close",
	"(*PostingsList).Iterator", "(*PostingsList).Count", "(*PostingsList).OrInto", "(*PostingsList).Size",
	"(*PostingsIterator).Next", "(*PostingsIterator).Advance", "(*PostingsIterator).Count", "(*PostingsIterator).Size",
	"(*PostingsIterator).ReplaceActual", "(*PostingsIterator).ActualBitmap", "(*PostingsIterator).DocNum1Hit",
	"(*Merger).WriteTo", "(*Merger).DocumentNumbers", "Merge",
}

// ApplySchemas synthesizes schema contracts for one property.
func ApplySchemas(w *World, schemas []string, prop string) {
	defer PropagateParamSpecs(w)
	// guardedby declarations: every function touching the guarded map carries the obligation
	for _, g := range w.Spec.GuardedBy {
		if !hasProp(strings.Split(g[3], ","), prop) {
			continue
		}
		for _, f := range w.FnAll {
			touches := false
			for _, b := range f.Blocks {
				for _, ins := range b.Instrs {
					var m ssa.Value
					switch x := ins.(type) {
					case *ssa.MapUpdate:
						m = x.Map
					case *ssa.Lookup:
						m = x.X
					}
					if ld, ok := m.(*ssa.UnOp); ok {
						if fa, ok := ld.X.(*ssa.FieldAddr); ok {
							if st, key, local := w.localStruct(deref(fa.X.Type())); st != nil && local && key == g[0] && st.Field(fa.Field).Name() == g[1] {
								touches = true
							}
						}
					}
				}
			}
			if touches {
				c := w.contractFor(w.FnName(f))
				c.ExtraProps = append(c.ExtraProps, prop)
			}
		}
	}
	// mapinv declarations: every function storing into a map of the declared type carries the obligation
	for _, mi := range w.Spec.MapInvs {
		if !hasProp(strings.Split(mi[3], ","), prop) {
			continue
		}
		for _, f := range w.FnAll {
			touches := false
			for _, b := range f.Blocks {
				for _, ins := range b.Instrs {
					if x, ok := ins.(*ssa.MapUpdate); ok {
						if m, ok := x.Map.Type().Underlying().(*types.Map); ok {
							for _, mj := range w.mapInvsFor(m) {
								if mj == mi {
									touches = true
								}
							}
						}
					}
				}
			}
			if touches {
				c := w.contractFor(w.FnName(f))
				c.ExtraProps = append(c.ExtraProps, prop)
			}
		}
	}
	// frozen fields: no function changes them on objects that existed when it was entered
	// (the protect mechanism, applied to every function whose mod-set contains the field)
	for _, fz := range w.Spec.Frozen {
		if !hasProp(strings.Split(fz[2], ","), prop) {
			continue
		}
		h := "H$" + fz[0] + "$" + fz[1]
		// API calls re-entered from a caller-supplied callback obey the same rule (they are checked for it)
		w.CallbackProtect = append(w.CallbackProtect, h)
		for _, f := range w.FnAll {
			n := w.FnName(f)
			if ct := w.Spec.Contracts[n]; ct != nil && ct.Trusted {
				continue
			}
			if !w.modsets[f][h] {
				continue
			}
			c := w.contractFor(n)
			dup := false
			for _, x := range c.Protect {
				if x == h {
					dup = true
				}
			}
			if !dup {
				c.Protect = append(c.Protect, h)
			}
			if !hasProp(c.ProtectProps, prop) {
				c.ProtectProps = append(c.ProtectProps, prop)
			}
		}
	}
	// fieldinv declarations: every function storing to the field carries the obligation
	for _, fi := range w.Spec.FieldInvs {
		if !hasProp(strings.Split(fi[3], ","), prop) {
			continue
		}
		for _, f := range w.FnAll {
			touches := false
			for _, b := range f.Blocks {
				for _, ins := range b.Instrs {
					if x, ok := ins.(*ssa.Store); ok {
						if fa, ok := x.Addr.(*ssa.FieldAddr); ok {
							if st, key, local := w.localStruct(deref(fa.X.Type())); st != nil && local && key == fi[0] && st.Field(fa.Field).Name() == fi[1] {
								touches = true
							}
						}
					}
				}
			}
			if touches {
				c := w.contractFor(w.FnName(f))
				c.ExtraProps = append(c.ExtraProps, prop)
			}
		}
	}
	props := []string{prop}
	for _, s := range schemas {
		switch {
		case s == "err" || s == "rerr":
			// S-ERR: a destination-write failure or an observed cancellation inside f surfaces as f's error
			// S-RERR: the same discipline for a failed storage read (ghost flag rdfailed, set by Data.Read)
			gvs := []string{"wfailed", "cancelled"}
			if s == "rerr" {
				gvs = []string{"rdfailed"}
			}
			var names []string
			for n := range w.Fns {
				names = append(names, n)
			}
			sort.Strings(names)
			for _, n := range names {
				f := w.Fns[n]
				for _, gv := range gvs {
					if !w.modsets[f]["G$"+gv] {
						continue
					}
					if ct := w.Spec.Contracts[n]; ct != nil && ct.Trusted {
						continue
					}
					c := w.contractFor(n)
					res := f.Signature.Results()
					if k := res.Len(); k > 0 && isErrorType(res.At(k-1).Type()) {
						c.Ensures = append(c.Ensures, mustClause("ensures", fmt.Sprintf("%s && !old(%s) ==> result%d != nil", gv, gv, k-1), props, "schema:err"))
					} else {
						c.Ensures = append(c.Ensures, mustClause("ensures", fmt.Sprintf("%s == old(%s)", gv, gv), props, "schema:err"))
					}
					c.Ensures = append(c.Ensures, mustClause("ensures", fmt.Sprintf("old(%s) ==> %s", gv, gv), props, "schema:err"))
					c.AllLoopInv = append(c.AllLoopInv, mustClause("invariant", fmt.Sprintf("%s == old(%s)", gv, gv), props, "schema:err"))
					// function-valued parameters returning error must obey the same discipline
					for _, p := range f.Params {
						ps, ok := p.Type().Underlying().(*types.Signature)
						if !ok || ps.Results().Len() == 0 || !isErrorType(ps.Results().At(ps.Results().Len()-1).Type()) {
							continue
						}
						if c.ParamSpec == nil {
							c.ParamSpec = map[string]*Contract{}
						}
						pc := c.ParamSpec[p.Name()]
						if pc == nil {
							pc = &Contract{Func: n + "/param:" + p.Name(), Loops: map[int]*LoopSpec{}}
							c.ParamSpec[p.Name()] = pc
						}
						k := ps.Results().Len() - 1
						pc.Ensures = append(pc.Ensures,
							mustClause("ensures", fmt.Sprintf("%s && !old(%s) ==> result%d != nil", gv, gv, k), props, "schema:err"),
							mustClause("ensures", fmt.Sprintf("old(%s) ==> %s", gv, gv), props, "schema:err"))
					}
				}
			}
		case s == "lock":
			var names []string
			for n := range w.Fns {
				names = append(names, n)
			}
			sort.Strings(names)
			// members: functions that may change lock state, and (transitively) their callers,
			// which must establish "no lock held" before calling them
			member := map[*ssa.Function]bool{}
			for _, f := range w.FnAll {
				if w.modsets[f]["X$_$locked"] {
					member[f] = true
				}
			}
			for changed := true; changed; {
				changed = false
				for g := range member {
					for _, f := range w.callers[g] {
						if !member[f] {
							member[f] = true
							changed = true
						}
					}
				}
			}
			for _, n := range names {
				f := w.Fns[n]
				if !member[f] {
					continue
				}
				if ct := w.Spec.Contracts[n]; ct != nil && ct.Trusted {
					continue
				}
				c := w.contractFor(n)
				c.Requires = append(c.Requires, mustClause("requires", "forall(r, !locked(r))", props, "schema:lock"))
				c.Ensures = append(c.Ensures, mustClause("ensures", "forall(r, !locked(r))", props, "schema:lock"))
				c.AllLoopInv = append(c.AllLoopInv, mustClause("invariant", "forall(r, !locked(r))", props, "schema:lock"))
			}
			w.CallbackInv = append(w.CallbackInv, mustClause("invariant", "forall(r, !locked(r))", props, "schema:lock"))
		case strings.HasPrefix(s, "protect:"):
			policy := strings.TrimPrefix(s, "protect:")
			heaps := w.policyHeaps(policy)
			w.CallbackProtect = append(w.CallbackProtect, heaps...)
			reach := w.reachFrom(readAPIRoots)
			var fs []*ssa.Function
			for f := range reach {
				fs = append(fs, f)
			}
			sort.Slice(fs, func(i, j int) bool { return w.FnName(fs[i]) < w.FnName(fs[j]) })
			for _, f := range fs {
				n := w.FnName(f)
				if ct := w.Spec.Contracts[n]; ct != nil && ct.Trusted {
					continue
				}
				var hs []string
				for _, h := range heaps {
					if w.modsets[f][h] {
						hs = append(hs, h)
					}
				}
				c := w.contractFor(n)
				// every reachable function carries the (possibly empty) promise, so callers may rely on it
				c.Protect = append(c.Protect, hs...)
				c.ProtectProps = append(c.ProtectProps, props...)
			}
		}
	}
	pullCallers(w, prop)
}

// pullCallers: a precondition tagged with the property is an obligation at every static
// call site in the package, so every caller of such a function is brought under the check
// (calls through interfaces and function values are covered by the subtype/param rules).
func pullCallers(w *World, prop string) {
	need := map[string]bool{}
	for n, c := range w.Spec.Contracts {
		if c.Trusted || strings.Contains(n, "/param:") {
			continue
		}
		for _, cl := range c.Requires {
			if hasProp(cl.Props, prop) {
				if id, ok := cl.Expr.(*SIdent); ok && id.Name == "true" {
					continue
				}
				need[n] = true
			}
		}
	}
	if len(need) == 0 {
		return
	}
	for _, f := range w.FnAll {
		for _, b := range f.Blocks {
			for _, ins := range b.Instrs {
				ci, ok := ins.(ssa.CallInstruction)
				if !ok {
					continue
				}
				if name, _ := w.calleeName(ci.Common()); need[name] {
					c := w.contractFor(w.FnName(f))
					if !hasProp(c.ExtraProps, prop) {
						c.ExtraProps = append(c.ExtraProps, prop)
					}
				}
			}
		}
	}
}

// PropagateParamSpecs: a closure passed for a parameter that carries a parameter
// contract gets the clauses of that contract added to its own contract, where they
// become ordinary proof obligations of the closure.
func PropagateParamSpecs(w *World) {
	for _, f := range w.FnAll {
		for _, b := range f.Blocks {
			for _, ins := range b.Instrs {
				ci, ok := ins.(ssa.CallInstruction)
				if !ok {
					continue
				}
				c := ci.Common()
				name, callee := w.calleeName(c)
				if callee == nil || c.IsInvoke() {
					continue
				}
				ct := w.Spec.Contracts[name]
				if ct == nil || len(ct.ParamSpec) == 0 {
					continue
				}
				for i, p := range callee.Params {
					pc := ct.ParamSpec[p.Name()]
					if pc == nil || i >= len(c.Args) {
						continue
					}
					arg := c.Args[i]
					for {
						if x, ok := arg.(*ssa.ChangeType); ok {
							arg = x.X
							continue
						}
						break
					}
					mc, ok := arg.(*ssa.MakeClosure)
					if !ok {
						continue
					}
					g := mc.Fn.(*ssa.Function)
					gc := w.contractFor(w.FnName(g))
					for _, cl := range pc.Ensures {
						dup := false
						for _, h := range gc.Ensures {
							if strings.Join(strings.Fields(h.Src), " ") == strings.Join(strings.Fields(cl.Src), " ") {
								dup = true
							}
						}
						if !dup {
							gc.Ensures = append(gc.Ensures, &Clause{Kind: "ensures", Props: cl.Props, Src: cl.Src, Expr: cl.Expr, Line: cl.Line + " (from parameter contract of " + name + ")"})
						}
					}
				}
			}
		}
	}
}

// policyHeaps: heap variables whose pre-existing objects must not be written.
func (w *World) policyHeaps(policy string) []string {
	var out []string
	add := func(typeName string, except ...string) {
		obj, ok := w.TPkg.Scope().Lookup(typeName).(*types.TypeName)
		if !ok {
			return
		}
		st, key, _ := w.localStruct(obj.Type())
		for i := 0; i < st.NumFields(); i++ {
			fl := st.Field(i)
			skip := false
			for _, e := range except {
				if e == fl.Name() {
					skip = true
				}
			}
			if skip || isStructType(fl.Type()) {
				continue
			}
			out = append(out, w.FieldHeap(key, fl.Name(), w.SortOf(fl.Type())))
		}
	}
	switch policy {
	case "segment":
		// everything a reader can observe of a segment (C09, C15): all Segment and footer fields
		add("Segment")
		add("footer")
	}
	sort.Strings(out)
	return out
}
