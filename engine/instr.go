package main

import (
	"fmt"
	"sort"
	"go/constant"
	"go/token"
	"go/types"
	"math/big"
	"strings"

	"golang.org/x/tools/go/ssa"
)

func pow2(k int) string { return new(big.Int).Lsh(big.NewInt(1), uint(k)).String() }

func typeBits(t types.Type) (bits int, signed bool, ok bool) {
	b, isB := t.Underlying().(*types.Basic)
	if !isB || b.Info()&types.IsInteger == 0 {
		return 0, false, false
	}
	switch b.Kind() {
	case types.Int8:
		return 8, true, true
	case types.Int16:
		return 16, true, true
	case types.Int32:
		return 32, true, true
	case types.Int, types.Int64:
		return 64, true, true
	case types.Uint8:
		return 8, false, true
	case types.Uint16:
		return 16, false, true
	case types.Uint32:
		return 32, false, true
	case types.Uint, types.Uint64, types.Uintptr:
		return 64, false, true
	}
	return 0, false, false
}

func inRange(t Term, typ types.Type) Term {
	lo, hi, ok := intRange(typ)
	if !ok {
		return True
	}
	return And(Le(IntLitStr(lo), t), Le(t, IntLitStr(hi)))
}

func constInt(v ssa.Value) (*big.Int, bool) {
	c, ok := v.(*ssa.Const)
	if !ok || c.Value == nil || c.Value.Kind() != constant.Int {
		return nil, false
	}
	n, ok := new(big.Int).SetString(c.Value.ExactString(), 10)
	return n, ok
}

// guardedAccess: maps declared "guardedby" a mutex may only be read or written while it is held.
func (f *fnTrans) guardedAccess(ins ssa.Instruction, m ssa.Value) {
	ld, ok := m.(*ssa.UnOp)
	if !ok {
		return
	}
	fa, ok := ld.X.(*ssa.FieldAddr)
	if !ok {
		return
	}
	st, key, local := f.w.localStruct(deref(fa.X.Type()))
	if st == nil || !local {
		return
	}
	for _, g := range f.w.Spec.GuardedBy {
		if g[0] != key || g[1] != st.Field(fa.Field).Name() {
			continue
		}
		mu := f.w.SubRef(key, g[2], f.val(fa.X))
		cond := Select(f.heap("X$_$locked"), mu)
		k := f.nOb["guarded"]
		o := f.oblige("guarded", fmt.Sprintf("%s.%s is accessed only while %s.%s is held", g[0], g[1], g[0], g[2]), ins.Pos(), strings.Split(g[3], ","), f.here(), cond)
		o.Name = fmt.Sprintf("%s/guarded:%s.%s#%d", f.name, g[0], g[1], k)
	}
}

func (f *fnTrans) instr(ins ssa.Instruction) {
	switch x := ins.(type) {
	case *ssa.MapUpdate:
		f.guardedAccess(ins, x.Map)
	case *ssa.Lookup:
		f.guardedAccess(ins, x.X)
	}
	switch ins.(type) {
	case *ssa.MapUpdate, *ssa.Lookup:
		f.atAnchor(ins) // these anchors denote the state just before the access
	default:
		defer f.atAnchor(ins)
	}
	switch ins := ins.(type) {
	case *ssa.DebugRef:
	case *ssa.Phi:
		// handled at block entry
	case *ssa.Alloc:
		r := f.alloc()
		f.vals[ins] = r
		f.zeroInit(r, deref(ins.Type()))
		if _, ok := deref(ins.Type()).(*types.Named); ok {
			f.factHere(Eq(App("dyntype", SInt, r), f.w.Tag(ins.Type())))
		}
	case *ssa.UnOp:
		f.unop(ins)
	case *ssa.BinOp:
		f.binop(ins)
	case *ssa.Store:
		a := f.addrOf(ins.Addr)
		f.nilCheckAddr(ins.Addr, ins.Pos())
		f.store(a, f.val(ins.Val), ins.Pos())
		if fa, ok := ins.Addr.(*ssa.FieldAddr); ok {
			if st, key, local := f.w.localStruct(deref(fa.X.Type())); st != nil && local {
				for _, fi := range f.w.Spec.FieldInvs {
					if fi[0] != key || fi[1] != st.Field(fa.Field).Name() {
						continue
					}
					if ex, err := ParseSpecExpr(fi[2]); err == nil {
						env := &Env{w: f.w, names: map[string]TV{"v": {f.val(ins.Val), st.Field(fa.Field).Type()}}, st: f.cur, old: f.cur, lets: map[string]SExpr{}}
						if b, err := env.EvalBool(ex); err == nil {
							o := f.oblige("fieldinv", "declared invariant of "+key+"."+fi[1]+" holds of the stored value: "+fi[2], ins.Pos(), strings.Split(fi[3], ","), f.here(), b)
							o.Name = fmt.Sprintf("%s/fieldinv#%d", f.name, f.nOb["fieldinv"]-1)
						} else {
							f.unsupported("%s: fieldinv: %v", fi[4], err)
						}
					}
				}
			}
			// stores into a struct with declared invariants must re-establish them
			if inv := f.typeInv(f.val(fa.X), fa.X.Type()); inv.S != "true" && !f.isConstructing(fa.X) {
				// objects allocated by this function are under construction until they leave it
				// (checked at return and where they are passed to a callee)
				base := f.val(fa.X)
				notFresh := Le(App("root", SInt, base), Sym("G$allocTop@0", SInt))
				o := f.oblige("typeinv", "type invariant holds after store to "+fa.String()+" (of an object that existed at entry)", ins.Pos(), f.allProps, f.here(), Implies(notFresh, inv))
				o.Name = fmt.Sprintf("%s/typeinv#%d", f.name, f.nOb["typeinv"]-1)
			}
		}
	case *ssa.FieldAddr:
		base := f.val(ins.X)
		f.safety("nil", "field access through nil pointer: "+ins.String(), ins.Pos(), Ne(base, IntLit(0)))
		a := f.addrOf(ins)
		if a.kind == akStruct || a.kind == akArray || a.kind == akOpaque {
			f.vals[ins] = a.ref
		}
	case *ssa.Field:
		x := f.val(ins.X)
		st, key, local := f.w.localStruct(ins.X.Type())
		if st == nil || !local {
			f.vals[ins] = f.fresh("field", f.w.SortOf(ins.Type()))
			break
		}
		fl := st.Field(ins.Field)
		f.vals[ins] = App(key+"$"+fl.Name(), f.w.SortOf(fl.Type()), x)
	case *ssa.IndexAddr:
		f.indexAddr(ins)
	case *ssa.Index:
		x, i := f.val(ins.X), f.val(ins.Index)
		switch u := ins.X.Type().Underlying().(type) {
		case *types.Array:
			f.safety("idx", "array index in range", ins.Pos(), And(Le(IntLit(0), i), Lt(i, IntLit(u.Len()))))
			f.vals[ins] = Select(x, i)
		case *types.Basic:
			f.safety("idx", "string index in range", ins.Pos(), And(Le(IntLit(0), i), Lt(i, App("gstr.len", SInt, x))))
			f.vals[ins] = App("gstr.at", SInt, x, i)
			f.factHere(inRange(f.vals[ins], types.Typ[types.Uint8]))
		default:
			f.unsupported("Index on %s", ins.X.Type())
		}
	case *ssa.Slice:
		f.sliceInstr(ins)
	case *ssa.MakeSlice:
		l, c := f.val(ins.Len), f.val(ins.Cap)
		f.safety("makeslice", "make: 0 <= len <= cap", ins.Pos(), And(Le(IntLit(0), l), Le(l, c)))
		r := f.alloc()
		sl := ins.Type().Underlying().(*types.Slice)
		f.zeroArray(r, sl.Elem())
		f.vals[ins] = f.define("mkslice", MkSlice(r, IntLit(0), l, c))
	case *ssa.MakeMap:
		r := f.alloc()
		m := ins.Type().Underlying().(*types.Map)
		val, dom := f.w.MapHeaps(m)
		ks := f.w.SortOf(m.Key())
		f.setHeap(dom, Store(f.heap(dom), r, Term{fmt.Sprintf("((as const %s) false)", ArrSort(ks, SBool)), ArrSort(ks, SBool)}))
		_ = val
		f.factHere(Eq(App("mapcard$"+f.w.typeKey(m), SInt, Select(f.heap(dom), r)), IntLit(0)))
		f.vals[ins] = r
	case *ssa.MakeInterface:
		f.makeInterface(ins)
	case *ssa.MakeClosure:
		r := f.alloc()
		f.vals[ins] = r
		f.closures[ins] = ins
		f.factHere(Eq(App("closurefn", SInt, r), f.val(ins.Fn)))
	case *ssa.ChangeType:
		f.vals[ins] = f.val(ins.X)
	case *ssa.ChangeInterface:
		f.vals[ins] = f.val(ins.X)
	case *ssa.Convert:
		f.convert(ins)
	case *ssa.TypeAssert:
		f.typeAssert(ins)
	case *ssa.Extract:
		tv, ok := f.tupleVals[ins.Tuple]
		if !ok || ins.Index >= len(tv) {
			f.unsupported("extract from unknown tuple %s", ins.Tuple.Name())
			f.vals[ins] = f.fresh("extract", f.w.SortOf(ins.Type()))
			break
		}
		f.vals[ins] = tv[ins.Index]
	case *ssa.Lookup:
		f.lookup(ins)
	case *ssa.MapUpdate:
		m := ins.Map.Type().Underlying().(*types.Map)
		val, dom := f.w.MapHeaps(m)
		r, k, v := f.val(ins.Map), f.val(ins.Key), f.val(ins.Value)
		f.safety("map", "assignment to entry in nil map", ins.Pos(), Ne(r, IntLit(0)))
		for _, mi := range f.w.mapInvsFor(m) {
			if inv, ok := f.mapInv(mi, m, k, v); ok {
				o := f.oblige("mapinv", "declared entry invariant of "+mi[0]+"."+mi[1]+" holds of the stored entry: "+mi[2], ins.Pos(), strings.Split(mi[3], ","), f.here(), inv)
				o.Name = fmt.Sprintf("%s/mapinv#%d", f.name, f.nOb["mapinv"]-1)
			}
		}
		hv, hd := f.heap(val), f.heap(dom)
		oldDom := Select(hd, r)
		f.setHeap(val, Store(hv, r, Store(Select(hv, r), k, v)))
		f.setHeap(dom, Store(hd, r, Store(oldDom, k, True)))
		card := "mapcard$" + f.w.typeKey(m)
		f.factHere(Eq(App(card, SInt, Select(f.heap(dom), r)), Add(App(card, SInt, oldDom), Ite(Select(oldDom, k), IntLit(0), IntLit(1)))))
	case *ssa.Range:
		f.vals[ins] = f.val(ins.X)
		if m, ok := ins.X.Type().Underlying().(*types.Map); ok {
			// the keys this range loop has already delivered (each key is delivered at most once)
			h := f.w.VisitedHeap(m)
			it := f.alloc()
			f.rangeIter[ins] = it
			ks := f.w.SortOf(m.Key())
			f.setHeap(h, Store(f.heap(h), it, Term{fmt.Sprintf("((as const %s) false)", ArrSort(ks, SBool)), ArrSort(ks, SBool)}))
		}
	case *ssa.Next:
		f.next(ins)
	case *ssa.Call:
		f.call(ins, ins.Common(), ins)
	case *ssa.Defer:
		f.defers = append(f.defers, ins)
	case *ssa.RunDefers:
		for i := len(f.defers) - 1; i >= 0; i-- {
			d := f.defers[i]
			if d.Block() != f.curB && !d.Block().Dominates(f.curB) {
				f.unsupported("conditional defer")
				continue
			}
			f.call(d, d.Common(), nil)
		}
	case *ssa.If:
		c := f.val(ins.Cond)
		b := ins.Block()
		f.edgeC[[2]int{b.Index, b.Succs[0].Index}] = And(f.here(), c)
		f.edgeC[[2]int{b.Index, b.Succs[1].Index}] = And(f.here(), Not(c))
		if b.Succs[0] == b.Succs[1] {
			f.edgeC[[2]int{b.Index, b.Succs[0].Index}] = f.here()
		}
	case *ssa.Jump:
		b := ins.Block()
		f.edgeC[[2]int{b.Index, b.Succs[0].Index}] = f.here()
	case *ssa.Return:
		f.ret(ins)
	case *ssa.Panic:
		f.safety("panic", "explicit panic reachable", ins.Pos(), False)
	case *ssa.Select:
		f.unsupported("select")
		f.tupleVals[ins] = []Term{f.fresh("sel", SInt), f.fresh("selok", SBool)}
	case *ssa.Go, *ssa.Send:
		f.unsupported("%T", ins)
	default:
		f.unsupported("instruction %T", ins)
		if v, ok := ins.(ssa.Value); ok {
			f.vals[v] = f.fresh("unsup", f.w.SortOf(v.Type()))
		}
	}
}

func (f *fnTrans) nilCheckAddr(p ssa.Value, pos token.Pos) {
	switch p.(type) {
	case *ssa.FieldAddr, *ssa.IndexAddr, *ssa.Alloc, *ssa.Global:
		return // checked where the address was formed
	}
}

func (f *fnTrans) zeroArray(r Term, elem types.Type) {
	if st, _, local := f.w.localStruct(elem); st != nil && local {
		// struct elements live at elt(r, i): quantified zero fact per field
		f.zeroStructElems(r, elem)
		return
	}
	h := f.w.ElemHeap(elem)
	es := f.w.SortOf(elem)
	z := Term{fmt.Sprintf("((as const %s) %s)", ArrSort(SInt, es), f.w.Zero(elem).S), ArrSort(SInt, es)}
	f.setHeap(h, Store(f.heap(h), r, z))
}

func (f *fnTrans) zeroStructElems(r Term, elem types.Type) {
	st, key, _ := f.w.localStruct(elem)
	for i := 0; i < st.NumFields(); i++ {
		fl := st.Field(i)
		if isStructType(fl.Type()) {
			continue
		}
		h := f.w.FieldHeap(key, fl.Name(), f.w.SortOf(fl.Type()))
		f.factHere(Term{fmt.Sprintf("(forall ((i Int)) (! (= (select %s (elt %s i)) %s) :pattern ((elt %s i))))", f.heap(h).S, r.S, f.w.Zero(fl.Type()).S, r.S), SBool})
	}
}

func (f *fnTrans) unop(ins *ssa.UnOp) {
	switch ins.Op {
	case token.MUL:
		if al, ok := ins.X.(*ssa.Alloc); ok {
			if pv, ok := writeOnceParamCell(al); ok {
				// a parameter spilled to a cell because closures read it: never assigned again,
				// so every load yields the parameter whatever happens to the cell heap
				if t, seen := f.vals[pv]; seen {
					f.vals[ins] = t
					return
				}
			}
		}
		a := f.addrOf(ins.X)
		v := f.load(a, ins.Pos())
		v = f.define("ld_"+ins.Name(), v)
		f.vals[ins] = v
		f.factHere(f.rangeFact(v, ins.Type()))
	case token.NOT:
		f.vals[ins] = Not(f.val(ins.X))
	case token.SUB:
		x := f.val(ins.X)
		r := App("-", SInt, x)
		f.safety("wrap", "negation overflow", ins.Pos(), inRange(r, ins.Type()))
		f.vals[ins] = r
	case token.XOR:
		f.vals[ins] = f.fresh("xor", SInt)
		f.factHere(inRange(f.vals[ins], ins.Type()))
	case token.ARROW:
		f.unsupported("channel receive")
		f.vals[ins] = f.fresh("recv", f.w.SortOf(ins.Type()))
	default:
		f.unsupported("unary %s", ins.Op)
		f.vals[ins] = f.fresh("un", f.w.SortOf(ins.Type()))
	}
}

// writeOnceParamCell: al is a local cell initialised from a parameter and never stored again,
// neither in the function nor in any closure that captures it.
func writeOnceParamCell(al *ssa.Alloc) (*ssa.Parameter, bool) {
	var init *ssa.Parameter
	stores := 0
	var scan func(v ssa.Value, depth int) bool
	scan = func(v ssa.Value, depth int) bool {
		if depth > 4 || v.Referrers() == nil {
			return false
		}
		for _, r := range *v.Referrers() {
			switch x := r.(type) {
			case *ssa.Store:
				if x.Addr == v {
					stores++
					if p, ok := x.Val.(*ssa.Parameter); ok && depth == 0 {
						init = p
					} else {
						return false
					}
				} else {
					return false // the address itself escapes into memory
				}
			case *ssa.UnOp:
				if x.Op != token.MUL {
					return false
				}
			case *ssa.MakeClosure:
				fn := x.Fn.(*ssa.Function)
				for i, b := range x.Bindings {
					if b == v {
						if !scan(fn.FreeVars[i], depth+1) {
							return false
						}
					}
				}
			case *ssa.DebugRef:
			default:
				return false
			}
		}
		return true
	}
	if !scan(al, 0) || stores != 1 || init == nil {
		return nil, false
	}
	return init, true
}

func (f *fnTrans) binop(ins *ssa.BinOp) {
	x, y := f.val(ins.X), f.val(ins.Y)
	xt := ins.X.Type()
	isStr := x.Sort == SStr
	isFloat := false
	if b, ok := xt.Underlying().(*types.Basic); ok && b.Info()&types.IsFloat != 0 {
		isFloat = true
	}
	switch ins.Op {
	case token.EQL:
		f.vals[ins] = f.eqVals(x, y, xt)
		return
	case token.NEQ:
		f.vals[ins] = Not(f.eqVals(x, y, xt))
		return
	}
	if isStr {
		switch ins.Op {
		case token.ADD:
			f.vals[ins] = App("gstr.cat", SStr, x, y)
			f.factHere(Eq(App("gstr.len", SInt, f.vals[ins]), Add(App("gstr.len", SInt, x), App("gstr.len", SInt, y))))
		case token.LSS:
			f.vals[ins] = App("gstr.lt", SBool, x, y)
		case token.GTR:
			f.vals[ins] = App("gstr.lt", SBool, y, x)
		case token.LEQ:
			f.vals[ins] = Not(App("gstr.lt", SBool, y, x))
		case token.GEQ:
			f.vals[ins] = Not(App("gstr.lt", SBool, x, y))
		default:
			f.unsupported("string op %s", ins.Op)
		}
		return
	}
	if isFloat {
		s := f.w.SortOf(ins.Type())
		fn := "fop$" + sanitize(ins.Op.String())
		f.w.declFun(fn+string(s), fmt.Sprintf("(declare-fun %s (Int Int) %s)", fn, s))
		f.vals[ins] = App(fn, s, x, y)
		return
	}
	switch ins.Op {
	case token.LSS:
		f.vals[ins] = Lt(x, y)
	case token.LEQ:
		f.vals[ins] = Le(x, y)
	case token.GTR:
		f.vals[ins] = Gt(x, y)
	case token.GEQ:
		f.vals[ins] = Ge(x, y)
	case token.ADD, token.SUB, token.MUL:
		op := map[token.Token]string{token.ADD: "+", token.SUB: "-", token.MUL: "*"}[ins.Op]
		if op == "*" {
			op = mulOp(x, y)
		}
		r := App(op, SInt, x, y)
		f.safety("wrap", fmt.Sprintf("no wrap-around in %s", ins), ins.Pos(), inRange(r, ins.Type()))
		f.vals[ins] = f.define("ar_"+ins.Name(), r)
	case token.QUO, token.REM:
		f.safety("div", "division by zero", ins.Pos(), Ne(y, IntLit(0)))
		_, signed, _ := typeBits(ins.Type())
		var r Term
		if !signed {
			if ins.Op == token.QUO {
				r = App("div", SInt, x, y)
			} else {
				r = App("mod", SInt, x, y)
			}
		} else {
			// Go truncates toward zero; SMT div floors for positive divisor
			q := Ite(Ge(x, IntLit(0)), App("div", SInt, x, y), App("-", SInt, App("div", SInt, App("-", SInt, x), y)))
			if ins.Op == token.QUO {
				r = q
			} else {
				r = Sub(x, Mul(y, q))
			}
		}
		f.vals[ins] = f.define("dv_"+ins.Name(), r)
	case token.SHL, token.SHR:
		k, ok := constInt(ins.Y)
		if !ok || k.Sign() < 0 || k.Cmp(big.NewInt(64)) >= 0 {
			v := f.fresh("shift", SInt)
			f.factHere(inRange(v, ins.Type()))
			f.vals[ins] = v
			f.noteAssumed("non-constant shift abstracted to an arbitrary value in " + f.name)
			return
		}
		p := IntLitStr(pow2(int(k.Int64())))
		if ins.Op == token.SHL {
			r := Mul(x, p)
			f.safety("wrap", fmt.Sprintf("no wrap-around in %s", ins), ins.Pos(), inRange(r, ins.Type()))
			f.vals[ins] = r
		} else {
			_, signed, _ := typeBits(ins.Type())
			if signed {
				f.factHere(True)
			}
			f.vals[ins] = App("div", SInt, x, p)
		}
	case token.AND:
		// x & (2^k - 1)
		for _, pair := range [][2]ssa.Value{{ins.X, ins.Y}, {ins.Y, ins.X}} {
			if m, ok := constInt(pair[1]); ok {
				m1 := new(big.Int).Add(m, big.NewInt(1))
				if m.Sign() >= 0 && new(big.Int).And(m1, m).Sign() == 0 {
					f.vals[ins] = App("mod", SInt, f.val(pair[0]), IntLitStr(m1.String()))
					return
				}
			}
		}
		// x & m for a contiguous run of ones m = 2^hi - 2^lo
		for _, pair := range [][2]ssa.Value{{ins.X, ins.Y}, {ins.Y, ins.X}} {
			if m, ok := constInt(pair[1]); ok && m.Sign() > 0 {
				lo := int(m.TrailingZeroBits())
				run := new(big.Int).Rsh(m, uint(lo))
				r1 := new(big.Int).Add(run, big.NewInt(1))
				if new(big.Int).And(r1, run).Sign() == 0 {
					w := run.BitLen()
					v := f.val(pair[0])
					f.vals[ins] = Mul(App("mod", SInt, App("div", SInt, v, IntLitStr(pow2(lo))), IntLitStr(pow2(w))), IntLitStr(pow2(lo)))
					return
				}
			}
		}
		f.bitop(ins, x, y)
	case token.OR:
		// a | b == a + b when a is a multiple of 2^k and 0 <= b < 2^k (disjoint bit ranges)
		for _, pair := range [][2]ssa.Value{{ins.X, ins.Y}, {ins.Y, ins.X}} {
			if k := trailingZeros(pair[0]); k > 0 {
				a, b := f.val(pair[0]), f.val(pair[1])
				if c, ok := constInt(pair[1]); ok {
					if c.Sign() >= 0 && c.BitLen() <= k {
						f.vals[ins] = Add(a, b)
						return
					}
					continue
				}
				cond := And(Le(IntLit(0), b), Lt(b, IntLitStr(pow2(k))))
				// the side condition is part of the translation: it must be provable here
				o := f.oblige("bitor", fmt.Sprintf("operands of %s occupy disjoint bit ranges (right operand < 2^%d)", ins, k), ins.Pos(), f.allProps, f.here(), cond)
				o.Name = fmt.Sprintf("%s/bitor#%d", f.name, f.nOb["bitor"]-1)
				f.factOb(f.here(), cond)
				f.vals[ins] = Add(a, b)
				return
			}
		}
		f.bitop(ins, x, y)
	case token.XOR, token.AND_NOT:
		f.bitop(ins, x, y)
	default:
		f.unsupported("binary op %s", ins.Op)
		f.vals[ins] = f.fresh("bin", f.w.SortOf(ins.Type()))
	}
}

func (f *fnTrans) bitop(ins *ssa.BinOp, x, y Term) {
	fn := "bit$" + map[token.Token]string{token.AND: "and", token.OR: "or", token.XOR: "xor", token.AND_NOT: "andnot"}[ins.Op]
	f.w.declFun(fn, fmt.Sprintf("(declare-fun %s (Int Int) Int)", fn))
	v := App(fn, SInt, x, y)
	f.factHere(inRange(v, ins.Type()))
	f.vals[ins] = v
}

func (f *fnTrans) eqVals(x, y Term, t types.Type) Term {
	if x.Sort == SSlice {
		// only comparison with nil is legal
		if y.S == NilSlice.S {
			return Eq(SlArr(x), IntLit(0))
		}
		if x.S == NilSlice.S {
			return Eq(SlArr(y), IntLit(0))
		}
	}
	return Eq(x, y)
}

func (f *fnTrans) indexAddr(ins *ssa.IndexAddr) {
	i := f.val(ins.Index)
	switch u := ins.X.Type().Underlying().(type) {
	case *types.Slice:
		s := f.val(ins.X)
		f.safety("idx", "index in range: "+ins.String(), ins.Pos(), And(Le(IntLit(0), i), Lt(i, SlLen(s))))
	case *types.Pointer:
		a := u.Elem().Underlying().(*types.Array)
		f.safety("nil", "index through nil array pointer", ins.Pos(), Ne(f.val(ins.X), IntLit(0)))
		f.safety("idx", "array index in range", ins.Pos(), And(Le(IntLit(0), i), Lt(i, IntLit(a.Len()))))
	}
	a := f.addrOf(ins)
	if a.kind == akStruct || a.kind == akArray || a.kind == akOpaque {
		f.vals[ins] = a.ref
	}
}

func (f *fnTrans) sliceInstr(ins *ssa.Slice) {
	x := f.val(ins.X)
	var lo, hi, mx Term
	has := func(v ssa.Value) bool { return v != nil }
	switch u := ins.X.Type().Underlying().(type) {
	case *types.Slice:
		lo = IntLit(0)
		if has(ins.Low) {
			lo = f.val(ins.Low)
		}
		hi = SlLen(x)
		if has(ins.High) {
			hi = f.val(ins.High)
		}
		cp := SlCap(x)
		if has(ins.Max) {
			mx = f.val(ins.Max)
			f.safety("slice", "slice bounds: "+ins.String(), ins.Pos(), And(Le(IntLit(0), lo), Le(lo, hi), Le(hi, mx), Le(mx, cp)))
		} else {
			mx = cp
			f.safety("slice", "slice bounds: "+ins.String(), ins.Pos(), And(Le(IntLit(0), lo), Le(lo, hi), Le(hi, cp)))
		}
		f.vals[ins] = f.define("slice_"+ins.Name(), MkSlice(SlArr(x), Add(SlOff(x), lo), Sub(hi, lo), Sub(mx, lo)))
	case *types.Pointer:
		a := u.Elem().Underlying().(*types.Array)
		n := IntLit(a.Len())
		lo = IntLit(0)
		if has(ins.Low) {
			lo = f.val(ins.Low)
		}
		hi = n
		if has(ins.High) {
			hi = f.val(ins.High)
		}
		mx = n
		if has(ins.Max) {
			mx = f.val(ins.Max)
		}
		f.safety("slice", "slice bounds: "+ins.String(), ins.Pos(), And(Le(IntLit(0), lo), Le(lo, hi), Le(hi, mx), Le(mx, n)))
		f.vals[ins] = f.define("slice_"+ins.Name(), MkSlice(x, lo, Sub(hi, lo), Sub(mx, lo)))
	case *types.Basic:
		lo = IntLit(0)
		if has(ins.Low) {
			lo = f.val(ins.Low)
		}
		hi = App("gstr.len", SInt, x)
		if has(ins.High) {
			hi = f.val(ins.High)
		}
		f.safety("slice", "string slice bounds", ins.Pos(), And(Le(IntLit(0), lo), Le(lo, hi), Le(hi, App("gstr.len", SInt, x))))
		v := App("gstr.sub", SStr, x, lo, hi)
		f.factHere(Eq(App("gstr.len", SInt, v), Sub(hi, lo)))
		f.vals[ins] = v
	default:
		f.unsupported("slice of %s", ins.X.Type())
	}
}

func (f *fnTrans) makeInterface(ins *ssa.MakeInterface) {
	x := f.val(ins.X)
	xt := ins.X.Type()
	tag := f.w.Tag(xt)
	switch xt.Underlying().(type) {
	case *types.Pointer, *types.Map, *types.Signature, *types.Chan:
		f.vals[ins] = x
		f.factHere(Implies(Ne(x, IntLit(0)), Eq(App("dyntype", SInt, x), tag)))
		return
	case *types.Interface:
		f.vals[ins] = x
		return
	}
	if x.Sort == SInt {
		v := App("box", SInt, tag, x)
		f.vals[ins] = f.define("box", v)
		return
	}
	r := f.fresh("iface", SInt)
	f.factHere(And(Gt(r, IntLit(0)), Eq(App("dyntype", SInt, r), tag), Eq(App("root", SInt, r), IntLit(0))))
	f.vals[ins] = r
}

func (f *fnTrans) convert(ins *ssa.Convert) {
	x := f.val(ins.X)
	from, to := ins.X.Type(), ins.Type()
	_, _, fromInt := typeBits(from)
	_, _, toInt := typeBits(to)
	switch {
	case fromInt && toInt:
		// value-preserving unless it does not fit; that is the "conv" obligation
		if c, ok := constInt(ins.X); ok {
			_ = c
		}
		f.safety("conv", fmt.Sprintf("conversion %s preserves the value", ins), ins.Pos(), inRange(x, to))
		f.vals[ins] = x
	case x.Sort == SStr && f.w.SortOf(to) == SSlice:
		// []byte(s): fresh array holding the bytes of s
		r := f.alloc()
		n := App("gstr.len", SInt, x)
		sl := to.Underlying().(*types.Slice)
		h := f.w.ElemHeap(sl.Elem())
		arr := f.fresh("strbytes", ArrSort(SInt, SInt))
		f.setHeap(h, Store(f.heap(h), r, arr))
		f.factHere(Eq(App("gstr.of", SStr, arr, IntLit(0), n), x))
		f.factHere(Term{fmt.Sprintf("(forall ((i Int)) (! (=> (and (<= 0 i) (< i %s)) (= (select %s i) (gstr.at %s i))) :pattern ((select %s i))))", n.S, arr.S, x.S, arr.S), SBool})
		f.vals[ins] = f.define("bytes", MkSlice(r, IntLit(0), n, n))
	case x.Sort == SSlice && f.w.SortOf(to) == SStr:
		sl := from.Underlying().(*types.Slice)
		h := f.w.ElemHeap(sl.Elem())
		v := App("gstr.of", SStr, Select(f.heap(h), SlArr(x)), SlOff(x), SlLen(x))
		f.vals[ins] = f.define("str", v)
	default:
		fn := "cvt$" + f.w.typeKey(from) + "$" + f.w.typeKey(to)
		s := f.w.SortOf(to)
		f.w.declFun(fn, fmt.Sprintf("(declare-fun %s (%s) %s)", fn, x.Sort, s))
		v := App(fn, s, x)
		f.vals[ins] = v
		f.factHere(f.rangeFact(v, to))
	}
}

func (f *fnTrans) typeAssert(ins *ssa.TypeAssert) {
	x := f.val(ins.X)
	var ok Term
	if _, isIface := ins.AssertedType.Underlying().(*types.Interface); isIface {
		ok = f.fresh("implements", SBool)
		f.factHere(Implies(ok, Ne(x, IntLit(0))))
	} else {
		ok = And(Ne(x, IntLit(0)), Eq(App("dyntype", SInt, x), f.w.Tag(ins.AssertedType)))
	}
	s := f.w.SortOf(ins.AssertedType)
	var v Term
	if s == SInt {
		switch ins.AssertedType.Underlying().(type) {
		case *types.Pointer, *types.Interface, *types.Map, *types.Signature, *types.Chan:
			v = x
		default:
			v = App("ifaceval", SInt, x)
		}
	} else {
		v = f.fresh("unboxed", s)
	}
	if ins.CommaOk {
		okc := f.define("taok", ok)
		f.tupleVals[ins] = []Term{Ite(okc, v, f.w.Zero(ins.AssertedType)), okc}
		return
	}
	f.safety("assert", "type assertion "+ins.String()+" succeeds", ins.Pos(), ok)
	f.vals[ins] = v
}

func (f *fnTrans) lookup(ins *ssa.Lookup) {
	x, k := f.val(ins.X), f.val(ins.Index)
	switch u := ins.X.Type().Underlying().(type) {
	case *types.Map:
		val, dom := f.w.MapHeaps(u)
		in := And(Ne(x, IntLit(0)), Select(Select(f.heap(dom), x), k))
		v := Ite(in, Select(Select(f.heap(val), x), k), f.w.Zero(u.Elem()))
		v = f.define("lk_"+ins.Name(), v)
		f.factHere(f.rangeFact(v, u.Elem()))
		for _, mi := range f.w.mapInvsFor(u) {
			if inv, ok := f.mapInv(mi, u, k, v); ok {
				f.factHere(Implies(in, inv))
			}
		}
		if ins.CommaOk {
			f.tupleVals[ins] = []Term{v, f.define("lkok", in)}
		} else {
			f.vals[ins] = v
		}
	case *types.Basic:
		f.safety("idx", "string index in range", ins.Pos(), And(Le(IntLit(0), k), Lt(k, App("gstr.len", SInt, x))))
		f.vals[ins] = App("gstr.at", SInt, x, k)
	}
}

func (f *fnTrans) next(ins *ssa.Next) {
	rng, ok := ins.Iter.(*ssa.Range)
	if !ok || ins.IsString {
		f.unsupported("range over string")
		f.tupleVals[ins] = []Term{f.fresh("ok", SBool), f.fresh("k", SInt), f.fresh("v", SInt)}
		return
	}
	m := rng.X.Type().Underlying().(*types.Map)
	val, dom := f.w.MapHeaps(m)
	r := f.val(rng.X)
	okT := f.fresh("rng_ok", SBool)
	k := f.fresh("rng_k", f.w.SortOf(m.Key()))
	v := Select(Select(f.heap(val), r), k)
	f.factHere(Implies(okT, And(Ne(r, IntLit(0)), Select(Select(f.heap(dom), r), k))))
	f.factHere(f.rangeFact(k, m.Key()))
	for _, mi := range f.w.mapInvsFor(m) {
		if inv, ok := f.mapInv(mi, m, k, v); ok {
			f.factHere(Implies(okT, inv))
		}
	}
	if it, ok := f.rangeIter[rng]; ok {
		h := f.w.VisitedHeap(m)
		vis := Select(f.heap(h), it)
		f.factHere(Implies(okT, Not(Select(vis, k))))
		// if the range is exhausted every key of the map has been delivered (the map is not modified meanwhile)
		f.factHere(Implies(Not(okT), Term{fmt.Sprintf("(forall ((kk %s)) (! (=> (select (select %s %s) kk) (select %s kk)) :pattern ((select %s kk))))", f.w.SortOf(m.Key()), f.heap(dom).S, r.S, vis.S, vis.S), SBool}))
		f.setHeap(h, Store(f.heap(h), it, Ite(okT, Store(vis, k, True), vis)))
	}
	vv := f.define("rng_v", v)
	f.factHere(f.rangeFact(vv, m.Elem()))
	f.tupleVals[ins] = []Term{okT, k, vv}
}

// ---------------------------------------------------------------------------
// returns

func (f *fnTrans) ret(ins *ssa.Return) {
	ord := f.retOrd
	f.retOrd++
	f.vc.ReachRet = append(f.vc.ReachRet, f.here())
	if f.c == nil {
		return
	}
	names := map[string]TV{}
	for k, v := range f.baseNames() {
		names[k] = v
	}
	res := f.fn.Signature.Results()
	for i, r := range ins.Results {
		tv := TV{f.val(r), res.At(i).Type()}
		names[resName(i)] = tv
		if n := res.At(i).Name(); n != "" && n != "_" {
			if _, clash := names[n]; !clash {
				names[n] = tv
			} else {
				names[n] = tv // named result shadows nothing else at return
			}
		}
	}
	env := f.env(f.curB, f.cur, nil)
	env.names = names
	env.lookup = func(string) (TV, bool) { return TV{}, false }
	// free variables remain visible in posts
	look := f.lookupAt(f.curB, f.cur, nil)
	env.lookup = func(n string) (TV, bool) {
		for _, fv := range f.fn.FreeVars {
			if fv.Name() == n {
				return look(n)
			}
		}
		return TV{}, false
	}
	// ghost assignments may name locals (they are code, not interface)
	genv := *env
	genv.lookup = look
	for _, g := range f.c.GhostSets {
		f.ghostSet(&genv, g[0], g[1])
	}
	env.st = f.cur
	if len(f.c.Lemmas) > 0 {
		lenv := f.env(f.curB, f.cur, nil)
		inner := lenv.lookup
		lenv.lookup = func(n string) (TV, bool) {
			if tv, ok := names[n]; ok && (strings.HasPrefix(n, "result") || isResultName(res, n)) {
				return tv, true
			}
			return inner(n)
		}
		for i, cl := range f.c.Lemmas {
			t, err := lenv.EvalBool(cl.Expr)
			if err != nil {
				// a lemma may name locals that are not in scope at every return; it must apply at one at least
				if f.lemmaErr == nil {
					f.lemmaErr = map[int]string{}
				}
				f.lemmaErr[i] = fmt.Sprintf("%s: lemma %q: %v", cl.Line, cl.Src, err)
				continue
			}
			if f.lemmaOK == nil {
				f.lemmaOK = map[int]bool{}
			}
			f.lemmaOK[i] = true
			o := f.oblige("lemma", fmt.Sprintf("lemma %s", cl.Src), ins.Pos(), f.propsOf(cl), f.here(), t)
			o.Name = fmt.Sprintf("%s/lemma%d@ret%d", f.name, i, ord)
			f.factOb(f.here(), t)
		}
	}
	for i, cl := range f.c.Ensures {
		t, err := env.EvalBool(cl.Expr)
		if err != nil {
			if strings.Contains(err.Error(), "unknown identifier") {
				// the clause names something the code no longer has: an obligation that cannot be discharged
				o := f.oblige("post", fmt.Sprintf("ensures %s  [cannot be stated on this code: %v]", cl.Src, err), ins.Pos(), f.propsOf(cl), f.here(), False)
				nm := fmt.Sprintf("post%d", i)
				if cl.Name != "" {
					nm = "post:" + cl.Name
				}
				o.Name = fmt.Sprintf("%s/%s@ret%d", f.name, nm, ord)
				continue
			}
			f.unsupported("%s: ensures %q: %v", cl.Line, cl.Src, err)
			continue
		}
		o := f.oblige("post", fmt.Sprintf("ensures %s", cl.Src), ins.Pos(), f.propsOf(cl), f.here(), t)
		nm := fmt.Sprintf("post%d", i)
		if cl.Name != "" {
			nm = "post:" + cl.Name
		}
		o.Name = fmt.Sprintf("%s/%s@ret%d", f.name, nm, ord)
		f.factOb(f.here(), t)
	}
	f.constructedAtReturn(ins, ord)
	// a function that assigns ghost state owes the declared history constraints over it
	if len(f.c.GhostSets) > 0 {
		for k, hs := range f.w.Spec.Histories {
			touched := false
			for _, h := range f.w.historyHeaps(hs[0]) {
				for _, g := range f.c.GhostSets {
					if strings.HasPrefix(strings.TrimSpace(g[0]), strings.TrimPrefix(h, "X$_$")+"(") {
						touched = true
					}
				}
			}
			if !touched {
				continue
			}
			ex, err := ParseSpecExpr(hs[0])
			if err != nil {
				continue
			}
			henv := &Env{w: f.w, names: map[string]TV{}, st: f.cur, old: f.entry, lets: map[string]SExpr{}}
			t, err := henv.EvalBool(ex)
			if err != nil {
				f.unsupported("%s: history: %v", hs[2], err)
				continue
			}
			o := f.oblige("history", "declared history constraint holds between entry and return: "+hs[0], ins.Pos(), strings.Split(hs[1], ","), f.here(), t)
			o.Name = fmt.Sprintf("%s/history#%d@ret%d", f.name, k, ord)
		}
	}
	if f.c.HasMod {
		f.frameObligations(ins, ord)
	} else if len(f.c.Frames) > 0 {
		f.partialFrameObligations(ins, ord)
	}
	f.protectCheck("post", fmt.Sprintf("ret%d", ord), f.curB, f.cur, f.here(), ins.Pos(), nil)
	f.subtypeObligations(ins, ord, names)
}

// subtypeObligations: a method that implements a contracted interface method
// must satisfy the interface-level ensures (behavioural subtyping).
func (f *fnTrans) subtypeObligations(ins *ssa.Return, ord int, names map[string]TV) {
	recv := f.fn.Signature.Recv()
	if recv == nil {
		return
	}
	var keys []string
	for k := range f.w.ifaceOf {
		keys = append(keys, k)
	}
	sort.Strings(keys)
	for _, k := range keys {
		it := f.w.ifaceOf[k]
		ict := f.w.Spec.Contracts[k]
		if ict == nil || !strings.HasSuffix(k, ")."+f.fn.Name()) {
			continue
		}
		iface, ok := it.Underlying().(*types.Interface)
		if !ok || !types.Implements(recv.Type(), iface) {
			continue
		}
		// bind the interface method's parameter names to this method's parameters
		var isig *types.Signature
		for i := 0; i < iface.NumMethods(); i++ {
			if iface.Method(i).Name() == f.fn.Name() {
				isig = iface.Method(i).Type().(*types.Signature)
			}
		}
		if isig == nil {
			continue
		}
		n2 := map[string]TV{}
		for kk, v := range names {
			if strings.HasPrefix(kk, "result") || strings.HasPrefix(kk, "arg") || kk == "recv" {
				n2[kk] = v
			}
		}
		for i := 0; i < isig.Params().Len(); i++ {
			if nm := isig.Params().At(i).Name(); nm != "" && nm != "_" {
				n2[nm] = names[argName(i)]
			}
		}
		env := &Env{w: f.w, names: n2, st: f.cur, old: f.entry, lets: map[string]SExpr{}}
		for i, cl := range ict.Ensures {
			t, err := env.EvalBool(cl.Expr)
			if err != nil {
				f.unsupported("%s: interface ensures %q: %v", cl.Line, cl.Src, err)
				continue
			}
			props := cl.Props
			if len(props) == 0 {
				props = f.allProps
			}
			o := f.oblige("subtype", fmt.Sprintf("implements %s: ensures %s", k, cl.Src), ins.Pos(), props, f.here(), t)
			o.Name = fmt.Sprintf("%s/implements:%s/post%d@ret%d", f.name, k, i, ord)
		}
	}
}

func isResultName(res *types.Tuple, n string) bool {
	for i := 0; i < res.Len(); i++ {
		if res.At(i).Name() == n {
			return true
		}
	}
	return false
}

// frameLocs evaluates the modifies clause of contract c into, per heap
// variable, the list of references that may change ("" key never used).
type frameSpec struct {
	whole map[string]bool   // heap var entirely modifiable
	locs  map[string][]Term // heap var -> refs modifiable
}

func (f *fnTrans) frameOf(c *Contract, sig *types.Signature, env *Env) *frameSpec {
	return f.frameOfMods(c.Modifies, sig, env)
}

func (f *fnTrans) frameOfMods(modifies []string, sig *types.Signature, env *Env) *frameSpec {
	fs := &frameSpec{whole: map[string]bool{}, locs: map[string][]Term{}}
	for _, m := range modifies {
		loc := strings.TrimSpace(m)
		if strings.HasPrefix(loc, "!") {
			// "!loc": the heap variable loc lives in is framed, but loc itself may not change either
			for _, h := range f.w.modLocHeaps(strings.TrimPrefix(loc, "!"), sig) {
				if _, ok := fs.locs[h]; !ok {
					fs.locs[h] = nil
				}
			}
			continue
		}
		guardS := ""
		if i := strings.Index(loc, " if "); i > 0 {
			guardS = strings.TrimSpace(loc[i+4:])
			loc = strings.TrimSpace(loc[:i])
		}
		heaps := f.w.modLocHeaps(loc, sig)
		if _, ok := f.w.ghostVar[loc]; ok || loc == "allocTop" || strings.HasPrefix(loc, "heap:") {
			for _, h := range heaps {
				fs.whole[h] = true
			}
			continue
		}
		if obj := f.w.TPkg.Scope().Lookup(loc); obj != nil {
			for _, h := range heaps {
				fs.whole[h] = true
			}
			continue
		}
		if _, ok := f.w.wholeFieldHeap(loc); ok {
			for _, h := range heaps {
				fs.whole[h] = true
			}
			continue
		}
		var refExpr string
		if i := strings.Index(loc, "("); i > 0 {
			if _, ok := f.w.ghostFn[loc[:i]]; ok {
				inner := strings.TrimSuffix(loc[i+1:], ")")
				if strings.TrimSpace(inner) == "*" {
					for _, h := range heaps {
						fs.whole[h] = true
					}
					continue
				}
				loc = "*" + inner // evaluates inner as the reference
			}
		}
		switch {
		case strings.HasPrefix(loc, "*"):
			refExpr = loc[1:]
		case strings.HasSuffix(loc, "[*]"):
			refExpr = strings.TrimSuffix(loc, "[*]")
		default:
			refExpr = loc[:strings.LastIndex(loc, ".")]
		}
		ex, err := ParseSpecExpr(refExpr)
		if err != nil {
			f.unsupported("modifies %q: %v", loc, err)
			continue
		}
		tv, err := env.EvalAny(ex)
		if err != nil {
			f.unsupported("modifies %q: %v", loc, err)
			continue
		}
		ref := tv.T
		if ref.Sort == SSlice {
			ref = SlArr(ref)
		}
		if guardS != "" {
			gx, err := ParseSpecExpr(guardS)
			if err != nil {
				f.unsupported("modifies guard %q: %v", guardS, err)
				continue
			}
			g, err := env.EvalBool(gx)
			if err != nil {
				f.unsupported("modifies guard %q: %v", guardS, err)
				continue
			}
			ref = Term{"guard:" + g.S + "|" + ref.S, SInt}
		}
		if strings.HasSuffix(loc, "[*]") && tv.Typ != nil {
			if sl, ok := tv.Typ.Underlying().(*types.Slice); ok {
				if st, _, local := f.w.localStruct(sl.Elem()); st != nil && local {
					// elements are struct objects at elt(arr, i): any index
					for _, h := range heaps {
						fs.locs[h] = append(fs.locs[h], Term{"elt:" + ref.S, SInt})
					}
					continue
				}
			}
		}
		for _, h := range heaps {
			fs.locs[h] = append(fs.locs[h], ref)
		}
	}
	return fs
}

// frameFormula: forall r. (r not in locs && not fresh) => after[r] == before[r]
func (f *fnTrans) frameFormula(h string, locs []Term, before, after, allocTopBefore Term) Term {
	s := f.w.heapSort[h]
	if !s.IsArray() {
		return Eq(after, before)
	}
	conds := []string{"true"}
	if allocTopBefore.S != "" {
		// objects allocated during the call may be written freely
		conds = append(conds, fmt.Sprintf("(<= (root r) %s)", allocTopBefore.S))
	}
	for _, l := range locs {
		if strings.HasPrefix(l.S, "elt:") {
			conds = append(conds, fmt.Sprintf("(not (and (= (subtag r) 1) (= (elt$arr r) %s)))", strings.TrimPrefix(l.S, "elt:")))
			continue
		}
		if strings.HasPrefix(l.S, "guard:") {
			parts := strings.SplitN(strings.TrimPrefix(l.S, "guard:"), "|", 2)
			conds = append(conds, fmt.Sprintf("(not (and %s (= r %s)))", parts[0], parts[1]))
			continue
		}
		conds = append(conds, fmt.Sprintf("(not (= r %s))", l.S))
	}
	return Term{fmt.Sprintf("(forall ((r Int)) (! (=> (and %s) (= (select %s r) (select %s r))) :pattern ((select %s r))))",
		strings.Join(conds, " "), after.S, before.S, after.S), SBool}
}

// partialFrameObligations: the heaps named by a "frames" clause change only at the listed locations.
func (f *fnTrans) partialFrameObligations(ins *ssa.Return, ord int) {
	env := f.env(f.fn.Blocks[0], f.entry, nil)
	env.old = f.entry
	fs := f.frameOfMods(f.c.Frames, f.fn.Signature, env)
	top0 := Sym("G$allocTop@0", SInt)
	if t, ok := f.entry.h["G$allocTop"]; ok {
		top0 = t
	}
	if !f.w.modsets[f.fn]["G$allocTop"] {
		top0 = Term{}
	}
	props := f.c.FramesProps
	if len(props) == 0 {
		props = f.allProps
	}
	var hs []string
	for h := range fs.locs {
		hs = append(hs, h)
	}
	sort.Strings(hs)
	for _, h := range hs {
		before := Sym(h+"@0", f.w.heapSort[h])
		if t, ok := f.entry.h[h]; ok {
			before = t
		}
		after := f.heap(h)
		if after.S == before.S {
			continue
		}
		goal := f.frameFormula(h, fs.locs[h], before, after, top0)
		o := f.oblige("frame", fmt.Sprintf("frame: %s changes only at the locations listed in frames", h), ins.Pos(), props, f.here(), goal)
		o.Name = fmt.Sprintf("%s/frame:%s@ret%d", f.name, h, ord)
	}
}

func (f *fnTrans) frameObligations(ins *ssa.Return, ord int) {
	env := f.env(f.fn.Blocks[0], f.entry, nil)
	env.old = f.entry
	fs := f.frameOf(f.c, f.fn.Signature, env)
	top0 := Sym("G$allocTop@0", SInt)
	if t, ok := f.entry.h["G$allocTop"]; ok {
		top0 = t
	}
	if !f.w.modsets[f.fn]["G$allocTop"] {
		top0 = Term{}
	}
	for _, h := range f.w.ModsetOf(f.fn) {
		if fs.whole[h] || h == "G$allocTop" {
			continue
		}
		before := Sym(h+"@0", f.w.heapSort[h])
		if t, ok := f.entry.h[h]; ok {
			before = t
		}
		after := f.heap(h)
		if after.S == before.S {
			continue
		}
		goal := f.frameFormula(h, fs.locs[h], before, after, top0)
		o := f.oblige("frame", fmt.Sprintf("frame: %s changes only at the locations listed in modifies", h), ins.Pos(), f.allProps, f.here(), goal)
		o.Name = fmt.Sprintf("%s/frame:%s@ret%d", f.name, h, ord)
	}
}

// ghostSet executes a contract-level ghost assignment  name(x) = e.
// constructedAtReturn: objects this function allocated and returns, and parameters it was
// constructing, owe their type invariant now (unless the function reports an error).
func (f *fnTrans) constructedAtReturn(ins *ssa.Return, ord int) {
	res := f.fn.Signature.Results()
	guard := f.here()
	if k := res.Len(); k > 0 && isErrorType(res.At(k-1).Type()) && len(ins.Results) == k {
		guard = And(guard, Eq(f.val(ins.Results[k-1]), IntLit(0)))
	}
	fresh := func(t Term) Term { return Gt(App("root", SInt, t), Sym("G$allocTop@0", SInt)) }
	for i, r := range ins.Results {
		if _, ok := r.Type().Underlying().(*types.Pointer); !ok {
			continue
		}
		t := f.val(r)
		if inv := f.typeInv(t, r.Type()); inv.S != "true" {
			o := f.oblige("typeinv", fmt.Sprintf("type invariant of the returned object (result %d) if it was built here", i), ins.Pos(), f.allProps, guard, Implies(fresh(t), inv))
			o.Name = fmt.Sprintf("%s/typeinv:result%d@ret%d", f.name, i, ord)
		}
	}
	for _, p := range f.fn.Params {
		if !f.isConstructing(p) {
			continue
		}
		if inv := f.typeInv(f.val(p), p.Type()); inv.S != "true" {
			o := f.oblige("typeinv", "type invariant of the object under construction ("+p.Name()+") at return", ins.Pos(), f.allProps, guard, inv)
			o.Name = fmt.Sprintf("%s/typeinv:%s@ret%d", f.name, p.Name(), ord)
		}
	}
}

func (f *fnTrans) ghostSet(env *Env, loc, src string) {
	if _, ok := f.w.ghostVar[strings.TrimSpace(loc)]; ok {
		vx, err := ParseSpecExpr(src)
		if err != nil {
			f.unsupported("ghostset %s: %v", loc, err)
			return
		}
		env.st = f.cur
		v, err := env.EvalAny(vx)
		if err != nil {
			f.unsupported("ghostset %s: %v", loc, err)
			return
		}
		f.setHeap("G$"+strings.TrimSpace(loc), v.T)
		return
	}
	i := strings.Index(loc, "(")
	if i <= 0 || !strings.HasSuffix(loc, ")") {
		f.unsupported("ghostset: bad location %q", loc)
		return
	}
	name := loc[:i]
	if _, ok := f.w.ghostFn[name]; !ok {
		f.unsupported("ghostset: %s is not a ghost accessor", name)
		return
	}
	rx, err1 := ParseSpecExpr(loc[i+1 : len(loc)-1])
	vx, err2 := ParseSpecExpr(src)
	if err1 != nil || err2 != nil {
		f.unsupported("ghostset %s: %v %v", loc, err1, err2)
		return
	}
	env.st = f.cur
	r, err1 := env.EvalAny(rx)
	v, err2 := env.EvalAny(vx)
	if err1 == nil && err2 != nil && strings.Contains(err2.Error(), "unknown identifier") {
		// the value names a local that is not in scope at this return: the ghost cell is left arbitrary here
		_, vs := f.w.heapSort["X$_$"+name].ArrayParts()
		v, err2 = TV{T: f.fresh("ghost_"+name, vs)}, nil
	}
	if err1 != nil || err2 != nil {
		f.unsupported("ghostset %s: %v %v", loc, err1, err2)
		return
	}
	h := "X$_$" + name
	f.setHeap(h, Store(f.heap(h), r.T, v.T))
}

// trailingZeros: a number k such that v is certainly a multiple of 2^k (0 if unknown).
func trailingZeros(v ssa.Value) int { return trailingZerosD(v, 0) }

func trailingZerosD(v ssa.Value, depth int) int {
	if depth > 8 {
		return 0 // give up (also cuts cycles through loop phis)
	}
	trailingZeros := func(v ssa.Value) int { return trailingZerosD(v, depth+1) }
	switch x := v.(type) {
	case *ssa.Const:
		if c, ok := constInt(x); ok && c.Sign() > 0 {
			return int(c.TrailingZeroBits())
		}
	case *ssa.BinOp:
		switch x.Op {
		case token.SHL:
			if c, ok := constInt(x.Y); ok && c.Sign() >= 0 && c.BitLen() < 8 {
				return int(c.Int64()) + trailingZeros(x.X)
			}
		case token.OR, token.ADD:
			a, b := trailingZeros(x.X), trailingZeros(x.Y)
			if a < b {
				return a
			}
			return b
		}
	case *ssa.Phi:
		k := -1
		for _, e := range x.Edges {
			if e == ssa.Value(x) {
				continue
			}
			t := trailingZeros(e)
			if k < 0 || t < k {
				k = t
			}
		}
		if k > 0 {
			return k
		}
	case *ssa.Convert:
		return trailingZeros(x.X)
	}
	return 0
}
