package main

import (
	"fmt"
	"regexp"
	"strings"
)

// splitSexp splits "(op a b c)" into op and top-level arguments; ok=false for atoms.
func splitSexp(s string) (op string, args []string, ok bool) {
	s = strings.TrimSpace(s)
	if len(s) < 2 || s[0] != '(' || s[len(s)-1] != ')' {
		return "", nil, false
	}
	inner := s[1 : len(s)-1]
	var parts []string
	depth, start := 0, -1
	for i := 0; i < len(inner); i++ {
		c := inner[i]
		switch {
		case c == '(':
			if depth == 0 && start < 0 {
				start = i
			}
			depth++
		case c == ')':
			depth--
			if depth == 0 {
				parts = append(parts, inner[start:i+1])
				start = -1
			}
		case c == ' ' || c == '\n' || c == '\t':
			if depth == 0 && start >= 0 {
				parts = append(parts, inner[start:i])
				start = -1
			}
		default:
			if depth == 0 && start < 0 {
				start = i
			}
		}
	}
	if start >= 0 {
		parts = append(parts, inner[start:])
	}
	if len(parts) == 0 {
		return "", nil, false
	}
	return parts[0], parts[1:], true
}

var skCounter int

// NegateGoal renders "the goal is false" with the goal's leading implications turned
// into hypotheses and its leading universal quantifiers skolemised by hand (solvers
// are noticeably weaker when they have to do this themselves under a guard).
func NegateGoal(goal string) (decls []string, asserts []string) {
	op, args, ok := splitSexp(goal)
	switch {
	case ok && op == "=>" && len(args) == 2:
		asserts = append(asserts, args[0])
		d, a := NegateGoal(args[1])
		return d, append(asserts, a...)
	case ok && op == "!" && len(args) >= 1:
		return NegateGoal(args[0])
	case ok && op == "forall" && len(args) == 2:
		_, binders, ok2 := splitSexp("(x " + strings.TrimSuffix(strings.TrimPrefix(strings.TrimSpace(args[0]), "("), ")") + ")")
		if !ok2 {
			break
		}
		body := args[1]
		for _, b := range binders {
			name, rest, ok3 := splitSexp(b)
			if !ok3 || len(rest) != 1 {
				return nil, []string{"(not " + goal + ")"}
			}
			skCounter++
			fresh := fmt.Sprintf("%s!sk%d", name, skCounter)
			decls = append(decls, fmt.Sprintf("(declare-const %s %s)", fresh, rest[0]))
			re := regexp.MustCompile(`([\s()])` + regexp.QuoteMeta(name) + `([\s()])`)
			repl := strings.ReplaceAll(fresh, "$", "$$")
			for i := 0; i < 2; i++ { // twice: adjacent occurrences share a delimiter
				body = re.ReplaceAllString(body, "${1}"+repl+"${2}")
			}
		}
		d, a := NegateGoal(body)
		return append(decls, d...), a
	}
	return nil, []string{"(not " + goal + ")"}
}
