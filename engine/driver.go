package main

import (
	"encoding/json"
	"fmt"
	"os"
	"path/filepath"
	"sort"
	"strconv"
	"strings"
	"sync"
	"time"

	"go/types"

	"golang.org/x/tools/go/ssa"
)

// PropConfig is the per-property configuration in /verif/props.json.
type PropConfig struct {
	Title       string   `json:"title"`
	Schemas     []string `json:"schemas"`      // schema names instantiated for this property
	MinObls     int      `json:"min_obligations"` // vacuity floor
	Assumptions []string `json:"assumptions"`
	Scope       string   `json:"scope"`
	Unverified  []string `json:"unverified"` // named parts of the property's code left outside contracts
	Claimed     bool     `json:"claimed"`
}

// NeutralizeUnbacked makes the assume-guarantee reasoning across properties sound:
// a clause tagged only with properties whose checks are not claimed (and is not the
// property being run) would be assumed at its use sites without ever being proved by
// a registered check. Such clauses are replaced by "true" (their obligation names and
// ordinals stay stable). Returns how many clauses were neutralized.
func NeutralizeUnbacked(w *World, props map[string]*PropConfig, running string) int {
	backed := map[string]bool{running: true}
	for id, pc := range props {
		if pc.Claimed {
			backed[id] = true
		}
	}
	tt, _ := ParseSpecExpr("true")
	n := 0
	fix := func(cls []*Clause) {
		for _, cl := range cls {
			if len(cl.Props) == 0 {
				continue
			}
			ok := false
			for _, p := range cl.Props {
				// "@class" tags name a safety class of the caller, not a property
				if backed[p] || strings.HasPrefix(p, "@") {
					ok = true
				}
			}
			if !ok {
				cl.Expr = tt
				cl.Src = "true /* tagged only with unclaimed properties: " + cl.Src + " */"
				n++
			}
		}
	}
	var visit func(c *Contract)
	visit = func(c *Contract) {
		fix(c.Requires)
		fix(c.Ensures)
		fix(c.Lemmas)
		fix(c.LeafEnsures)
		for _, l := range c.Loops {
			fix(l.Invariants)
		}
		for _, a := range c.At {
			fix(a)
		}
		for _, pc := range c.ParamSpec {
			visit(pc)
		}
	}
	for _, c := range w.Spec.Contracts {
		visit(c)
	}
	return n
}

type KnownFinding struct {
	Property   string `json:"property"`
	Obligation string `json:"obligation"`
	Status     string `json:"status"` // finding | fixed
	Commit     string `json:"commit,omitempty"`
	What       string `json:"what"`
	Scenario   string `json:"scenario,omitempty"`
}

type sample struct {
	Obligation string  `json:"obligation"`
	Class      string  `json:"class"`
	Where      string  `json:"where"`
	Clause     string  `json:"clause"`
	Result     string  `json:"result"`
	Solver     string  `json:"solver"`
	Secs       float64 `json:"secs"`
	GoalSMT    string  `json:"goal_smt,omitempty"`
}

func hasProp(ps []string, p string) bool {
	for _, x := range ps {
		if x == p {
			return true
		}
	}
	return false
}

func loadJSON(path string, v interface{}) error {
	b, err := os.ReadFile(path)
	if err != nil {
		return err
	}
	return json.Unmarshal(b, v)
}

func runDriver(args []string) int {
	if len(args) < 2 || args[0] != "check" {
		fmt.Fprintln(os.Stderr, "usage: icevc check <prop> [quick|thorough]")
		return 2
	}
	prop := args[1]
	tier := "quick"
	if len(args) > 2 {
		tier = args[2]
	}
	if t := os.Getenv("VERIF_TIER"); t != "" && len(args) <= 2 {
		tier = t
	}
	seed, _ := strconv.Atoi(os.Getenv("VERIF_SEED"))
	t0 := time.Now()

	props := map[string]*PropConfig{}
	if err := loadJSON(filepath.Join(verifDir, "props.json"), &props); err != nil {
		fmt.Fprintln(os.Stderr, "props.json:", err)
		return 2
	}
	pc := props[prop]
	if pc == nil {
		fmt.Fprintln(os.Stderr, "unknown property", prop)
		return 2
	}
	var known []KnownFinding
	_ = loadJSON(filepath.Join(verifDir, "known_findings.json"), &known)

	w, err := LoadWorld(repoDir, preludeDir)
	if err != nil {
		fmt.Fprintln(os.Stderr, "load:", err)
		return 2
	}
	w.RunningProp = prop
	NeutralizeUnbacked(w, props, prop)
	ApplySchemas(w, pc.Schemas, prop)
	specFns, err := w.RenderSpecFns()
	if err != nil {
		fmt.Fprintln(os.Stderr, "spec functions:", err)
		return 2
	}

	// translate every function that has a contract (own or synthesized)
	type job struct {
		vc *FnVC
		o  *Obligation
	}
	var jobs []job
	var vcs []*FnVC
	var fnNames []string
	for n := range w.Fns {
		fnNames = append(fnNames, n)
	}
	sort.Strings(fnNames)
	missing := []string{}
	for n, c := range w.Spec.Contracts {
		if c.Trusted {
			continue
		}
		if _, ok := w.Fns[n]; !ok && !strings.Contains(n, "/param:") {
			missing = append(missing, n)
		}
	}
	sort.Strings(missing)
	machineryErrs := []string{}
	underContract := []string{}
	for _, n := range fnNames {
		c := w.Spec.Contracts[n]
		if c == nil || c.Trusted {
			continue
		}
		if !hasProp(contractProps(c), prop) {
			continue
		}
		vc := TranslateFn(w, w.Fns[n])
		vcs = append(vcs, vc)
		underContract = append(underContract, n)
		for _, u := range vc.Unsupported {
			machineryErrs = append(machineryErrs, n+": "+u)
		}
	}
	// package-level obligations: frozen constants, and package variables that are only set by initialisation
	if pvc := PackageVC(w, prop); pvc != nil && len(pvc.Obls) > 0 {
		vcs = append(vcs, pvc)
		underContract = append(underContract, pvc.Name)
		for _, u := range pvc.Unsupported {
			machineryErrs = append(machineryErrs, pvc.Name+": "+u)
		}
	}
	for _, e := range w.Errors {
		machineryErrs = append(machineryErrs, "spec: "+e)
	}
	// re-render: translation may have registered more signature
	specFns, _ = w.RenderSpecFns()
	for _, vc := range vcs {
		for _, o := range vc.Obls {
			if hasProp(o.Props, prop) {
				jobs = append(jobs, job{vc, o})
			}
		}
	}

	dir, _ := os.MkdirTemp("", "icevc-"+prop+"-")
	if os.Getenv("ICEVC_KEEP") == "" {
		defer os.RemoveAll(dir)
	} else {
		fmt.Println("queries kept in", dir)
	}
	timeout := 10
	all := false
	if tier == "thorough" {
		timeout = 60
		all = true
	}
	var wg sync.WaitGroup
	sem := make(chan struct{}, 14)
	for _, j := range jobs {
		wg.Add(1)
		go func(j job) {
			defer wg.Done()
			sem <- struct{}{}
			defer func() { <-sem }()
			SolveObligation(w, j.vc, j.o, dir, specFns, timeout, all)
		}(j)
	}
	// vacuity: per function, precondition satisfiable and some return reachable
	type vac struct {
		fn     string
		pre    string
		reach  string
		who    string
	}
	vacs := make([]vac, len(vcs))
	for i, vc := range vcs {
		wg.Add(1)
		go func(i int, vc *FnVC) {
			defer wg.Done()
			sem <- struct{}{}
			defer func() { <-sem }()
			vacs[i] = vac{fn: vc.Name}
			pre := w.vacuityScript(vc, vc.PreLines, True, specFns)
			pr := SolveVac(dir, "vac_pre_"+sanitize(vc.Name), pre, 3)
			vacs[i].pre = pr.Status
			vacs[i].who = pr.Solver
			if len(vc.ReachRet) > 0 {
				r := w.vacuityScript(vc, len(vc.Lines), Or(vc.ReachRet...), specFns)
				rr := SolveVac(dir, "vac_reach_"+sanitize(vc.Name), r, 3)
				vacs[i].reach = rr.Status
				vacs[i].who += "/" + rr.Solver
			} else {
				vacs[i].reach = "no-return"
			}
		}(i, vc)
	}
	wg.Wait()
	// the global axioms (prelude + memory model) alone must be satisfiable
	{
		var b strings.Builder
		b.WriteString(w.Preamble())
		for _, h := range w.heapOrder {
			b.WriteString(fmt.Sprintf("(declare-const %s@0 %s)\n", h, w.heapSort[h]))
		}
		b.WriteString(specFns)
		b.WriteString("(check-sat)\n")
		if st := Solve(dir, "vac_axioms", b.String(), 10, false).Status; st == "unsat" {
			machineryErrs = append(machineryErrs, "the global axioms are inconsistent")
		}
	}

	// classify
	discharged, total := 0, len(jobs)
	solverTime := 0.0
	bySolver := map[string]int{}
	var failed []*Obligation
	var samples []sample
	singleBackend := []string{}
	for _, j := range jobs {
		o := j.o
		solverTime += o.Result.Secs
		if o.Result.Status == "unsat" {
			discharged++
			bySolver[o.Result.Solver]++
			if all {
				n := 0
				for _, st := range o.Result.All {
					if st == "unsat" {
						n++
					}
				}
				if n < 2 {
					singleBackend = append(singleBackend, o.Name)
				}
			}
		} else {
			failed = append(failed, o)
		}
	}
	sort.Slice(jobs, func(a, b int) bool { return jobs[a].o.Name < jobs[b].o.Name })
	for i, j := range jobs {
		if i%maxInt(1, len(jobs)/6) == 0 && len(samples) < 8 {
			samples = append(samples, sample{j.o.Name, j.o.Class, j.o.Pos, j.o.Desc, j.o.Result.Status, j.o.Result.Solver, round3(j.o.Result.Secs), clip(Implies(j.o.Guard, j.o.Goal).S, 300)})
		}
	}

	exit := 0
	violations := 0
	os.MkdirAll(filepath.Join(replayDir(), prop), 0o755)
	var knownLines []string
	for _, o := range failed {
		kf := findKnown(known, prop, o.Name)
		if kf != nil && kf.Status == "finding" {
			knownLines = append(knownLines, fmt.Sprintf("KNOWN-FINDING: property=%s %s: %s", prop, o.Name, kf.What))
			continue
		}
		violations++
		exit = 1
		rp := writeReplay(w, prop, o, known)
		suffix := ""
		if !strings.HasSuffix(rp, ".replayed") {
			suffix = " no-failing-input-found"
		}
		rp = strings.TrimSuffix(rp, ".replayed")
		fmt.Printf("VIOLATION property=%s replay=%s obligation=%s result=%s%s\n", prop, rp, o.Name, o.Result.Status, suffix)
	}
	for _, l := range knownLines {
		fmt.Println(l)
	}
	// obligations whose target vanished
	for _, m := range missing {
		c := w.Spec.Contracts[m]
		if hasProp(contractProps(c), prop) {
			violations++
			exit = 1
			rp := filepath.Join(replayDir(), prop, sanitize("translate:"+m)+".txt")
			os.WriteFile(rp, []byte("obligation translate:"+m+"\nthe function under contract no longer exists in /repo; its obligations cannot be generated\n"), 0o644)
			fmt.Printf("VIOLATION property=%s replay=%s obligation=translate:%s no-failing-input-found\n", prop, rp, m)
		}
	}
	// machinery failures
	vacBad := []string{}
	for _, v := range vacs {
		if v.pre == "unsat" {
			vacBad = append(vacBad, v.fn+": precondition unsatisfiable")
		}
		if v.reach == "unsat" {
			vacBad = append(vacBad, v.fn+": no return reachable under the contract ("+v.who+")")
		}
	}
	if len(machineryErrs) > 0 || len(vacBad) > 0 || total < pc.MinObls {
		for _, e := range machineryErrs {
			fmt.Println("MACHINERY:", e)
		}
		for _, e := range vacBad {
			fmt.Println("MACHINERY: vacuity:", e)
		}
		if total < pc.MinObls {
			fmt.Printf("MACHINERY: only %d obligations generated for %s, floor is %d\n", total, prop, pc.MinObls)
		}
		if exit == 0 {
			exit = 2
		}
	}

	// evidence
	assumed := map[string]bool{}
	exts := map[string]bool{}
	for _, vc := range vcs {
		for _, a := range vc.Assumed {
			assumed[a] = true
		}
		for _, e := range vc.Externals {
			exts["unmodelled external treated as pure with arbitrary result: "+e] = true
		}
	}
	var assumptions []string
	grouped := map[string][]string{}
	for a := range assumed {
		if i := strings.Index(a, " sites) in "); i > 0 && strings.HasPrefix(a, "machine arithmetic") {
			k := a[:i+len(" sites) in ")]
			grouped[k] = append(grouped[k], a[i+len(" sites) in "):])
			continue
		}
		assumptions = append(assumptions, a)
	}
	for k, fs := range grouped {
		sort.Strings(fs)
		assumptions = append(assumptions, k+strings.Join(fs, ", "))
	}
	for a := range exts {
		assumptions = append(assumptions, a)
	}
	for _, d := range w.DefaultFramed {
		assumptions = append(assumptions, "unmodelled external given the default frame (arbitrary result, may write the elements of its slice arguments, nothing else): "+d)
	}
	assumptions = append(assumptions, pc.Assumptions...)
	assumptions = append(assumptions,
		"go/ssa construction, go/types and the Go compiler are trusted; the verified text is the SSA of /repo's working tree at check time",
		"memory model: objects are references, fields/elements/cells live in typed heaps; no goroutines, unsafe or reflect are modelled",
		"integers are mathematical; where a function does not claim 'wrap'/'conv' safety, absence of wrap-around is assumed (listed per function)",
		"caller-supplied callbacks are taken to interact with ice only through its public read API; they are taken not to change the ghost flags rdfailed (their failed reads are theirs to report) and pooled (they never hold the caller's checked-out pool objects)",
		"termination is not proved unless a 'decreases' clause is given; out-of-memory is not modelled",
		"solver soundness (z3 4.8.12, z3 5.1.0, cvc5 1.0.3)")
	sort.Strings(assumptions)
	var trusted []string
	for a := range assumed {
		if strings.HasPrefix(a, "trusted contract: ") {
			trusted = append(trusted, strings.TrimPrefix(a, "trusted contract: "))
		}
	}
	sort.Strings(trusted)
	trusted = append(trusted, "icevc translator (/verif/engine)", "SMT solvers")
	fnStats := []map[string]interface{}{}
	for _, vc := range vcs {
		n, d := 0, 0
		for _, o := range vc.Obls {
			if hasProp(o.Props, prop) {
				n++
				if o.Result.Status == "unsat" {
					d++
				}
			}
		}
		fnStats = append(fnStats, map[string]interface{}{"function": vc.Name, "obligations": n, "discharged": d, "mode": "int"})
	}
	failedNames := []string{}
	for _, o := range failed {
		failedNames = append(failedNames, o.Name+" ["+o.Result.Status+"]")
	}
	ev := map[string]interface{}{
		"property_id": prop,
		"tier":        tier,
		"seed":        seed,
		"level":       "proof",
		"wall_s":      round3(time.Since(t0).Seconds()),
		"violations":  violations,
		"assumptions": assumptions,
		"coverage": map[string]interface{}{
			"obligations":              total,
			"discharged":               discharged,
			"checker_cmd":              fmt.Sprintf("/verif/check %s %s  (icevc: go/ssa -> weakest-precondition VCs -> z3-new 5.1.0 | z3 4.8.12 | cvc5 1.0.3, one query per obligation, timeout %ds)", prop, tier, timeout),
			"trusted_base":             trusted,
			"functions_under_contract": fnStats,
			"schemas":                  pc.Schemas,
			"discharged_by_backend":    bySolver,
			"solver_seconds":           round3(solverTime),
			"not_discharged":           failedNames,
			"known_findings":           knownLines,
			"vacuity":                  map[string]interface{}{"functions_checked": len(vacs), "failures": vacBad},
			"single_backend_only":      singleBackend,
			"scope":                    pc.Scope,
			"unverified_parts":         pc.Unverified,
			"bounded":                  []string{},
			"samples":                  samples,
			"machinery_errors":         machineryErrs,
		},
	}
	evDir := envOr("ICE_EVIDENCE_DIR", filepath.Join(verifDir, "evidence"))
	os.MkdirAll(evDir, 0o755)
	b, _ := json.MarshalIndent(ev, "", " ")
	os.WriteFile(filepath.Join(evDir, prop+".json"), b, 0o644)
	fmt.Printf("%s %s: %d obligations, %d discharged, %d known findings, %d violations, %d functions, %.1fs\n",
		prop, tier, total, discharged, len(knownLines), violations, len(vcs), time.Since(t0).Seconds())
	return exit
}

func replayDir() string { return envOr("ICE_REPLAY_DIR", filepath.Join(verifDir, "replays")) }

func maxInt(a, b int) int {
	if a > b {
		return a
	}
	return b
}

func round3(x float64) float64 { return float64(int(x*1000)) / 1000 }

func clip(s string, n int) string {
	if len(s) > n {
		return s[:n] + "…"
	}
	return s
}

func findKnown(known []KnownFinding, prop, obl string) *KnownFinding {
	for i := range known {
		if known[i].Property == prop && known[i].Obligation == obl {
			return &known[i]
		}
	}
	return nil
}

func (w *World) vacuityScript(vc *FnVC, nlines int, extra Term, specFns string) string {
	var b strings.Builder
	b.WriteString(w.Preamble())
	for _, h := range w.heapOrder {
		b.WriteString(fmt.Sprintf("(declare-const %s@0 %s)\n", h, w.heapSort[h]))
	}
	b.WriteString(specFns)
	for _, l := range vc.Lines[:nlines] {
		if strings.Contains(l, " ;ob") {
			continue
		}
		b.WriteString(l + "\n")
	}
	b.WriteString(fmt.Sprintf("(assert %s)\n(check-sat)\n", extra.S))
	return b.String()
}

// writeReplay writes the replay file for a failed obligation. Returns the path,
// with suffix ".replayed" when a scenario reproduction ran and failed on the real code.
func writeReplay(w *World, prop string, o *Obligation, known []KnownFinding) string {
	path := filepath.Join(replayDir(), prop, sanitize(o.Name)+".txt")
	var b strings.Builder
	b.WriteString("obligation: " + o.Name + "\n")
	b.WriteString("property:   " + prop + "\n")
	b.WriteString("class:      " + o.Class + "\n")
	b.WriteString("where:      " + o.Pos + "\n")
	b.WriteString("clause:     " + o.Desc + "\n")
	b.WriteString("result:     " + o.Result.Status + " (" + o.Result.Solver + ")\n")
	b.WriteString("goal:       " + clip(Implies(o.Guard, o.Goal).S, 2000) + "\n")
	b.WriteString("solver output:\n" + firstLines(o.Result.Output, 60) + "\n")
	replayed := false
	if sc := scenarioFor(o.Name); sc != "" {
		out, failed := runScenario(sc)
		b.WriteString("\nscenario replay on the real code (" + sc + "):\n" + out + "\n")
		if failed {
			replayed = true
			b.WriteString("=> the scenario FAILS on /repo's working tree: the counterexample is reproduced\n")
		} else {
			b.WriteString("=> the scenario passes on /repo's working tree: not reproduced\n")
		}
	}
	os.WriteFile(path, []byte(b.String()), 0o644)
	if replayed {
		return path + ".replayed"
	}
	return path
}

var _ = ssa.BuilderMode(0)

// PackageVC builds the obligations that do not belong to a function: "const" clauses
// (format constants against frozen literals) and, for every in-package variable a
// globalinv talks about, that no function other than package initialisation stores to it.
func PackageVC(w *World, prop string) *FnVC {
	vc := &FnVC{Name: "package ice", BlockAt: map[int]string{}}
	for i, c := range w.Spec.Consts {
		props := strings.Split(c[1], ",")
		if !hasProp(props, prop) {
			continue
		}
		ex, err := ParseSpecExpr(c[0])
		if err != nil {
			vc.Unsupported = append(vc.Unsupported, fmt.Sprintf("%s: const %q: %v", c[2], c[0], err))
			continue
		}
		env := &Env{w: w, names: map[string]TV{}, st: NewState(), old: NewState(), lets: map[string]SExpr{}}
		t, err := env.EvalBool(ex)
		if err != nil {
			vc.Unsupported = append(vc.Unsupported, fmt.Sprintf("%s: const %q: %v", c[2], c[0], err))
			continue
		}
		vc.Obls = append(vc.Obls, &Obligation{Name: fmt.Sprintf("package/const#%d:%s", i, clip(c[0], 40)), Class: "const", Props: props, Func: "package ice",
			Desc: "format constant: " + c[0], Pos: c[2], Guard: True, Goal: t, Claimed: true})
	}
	for i, fi := range w.Spec.FieldInvs {
		props := strings.Split(fi[3], ",")
		if !hasProp(props, prop) {
			continue
		}
		obj, ok := w.TPkg.Scope().Lookup(fi[0]).(*types.TypeName)
		if !ok {
			vc.Unsupported = append(vc.Unsupported, fmt.Sprintf("%s: fieldinv: no type %s", fi[4], fi[0]))
			continue
		}
		st, _ := obj.Type().Underlying().(*types.Struct)
		var ft types.Type
		for k := 0; st != nil && k < st.NumFields(); k++ {
			if st.Field(k).Name() == fi[1] {
				ft = st.Field(k).Type()
			}
		}
		ex, err := ParseSpecExpr(fi[2])
		if ft == nil || err != nil {
			vc.Unsupported = append(vc.Unsupported, fmt.Sprintf("%s: fieldinv %s.%s: %v", fi[4], fi[0], fi[1], err))
			continue
		}
		env := &Env{w: w, names: map[string]TV{"v": {w.Zero(ft), ft}}, st: NewState(), old: NewState(), lets: map[string]SExpr{}}
		t, err := env.EvalBool(ex)
		if err != nil {
			vc.Unsupported = append(vc.Unsupported, fmt.Sprintf("%s: fieldinv: %v", fi[4], err))
			continue
		}
		vc.Obls = append(vc.Obls, &Obligation{Name: fmt.Sprintf("package/fieldinv-zero#%d:%s.%s", i, fi[0], fi[1]), Class: "fieldinv", Props: props, Func: "package ice",
			Desc: "declared field invariant holds of the zero value: " + fi[2], Pos: fi[4], Guard: True, Goal: t, Claimed: true})
	}
	for _, cf := range w.Spec.Confined {
		props := strings.Split(cf[2], ",")
		if !hasProp(props, prop) {
			continue
		}
		fn := w.Fns[cf[0]]
		if fn == nil {
			vc.Unsupported = append(vc.Unsupported, fmt.Sprintf("%s: confined: no function %s", cf[3], cf[0]))
			continue
		}
		allowed := map[string]bool{"G$allocTop": true}
		for _, a := range strings.Fields(cf[1]) {
			allowed["G$"+a] = true
		}
		for _, gv := range w.Spec.GhostVars {
			allowed["G$"+gv[0]] = true
		}
		var hs []string
		for h := range w.modsets[fn] {
			if strings.HasPrefix(h, "G$") && !allowed[h] {
				hs = append(hs, h)
			}
		}
		sort.Strings(hs)
		for _, h := range hs {
			vc.Obls = append(vc.Obls, &Obligation{Name: fmt.Sprintf("package/confined:%s:%s", cf[0], strings.TrimPrefix(h, "G$")), Class: "confined", Props: props, Func: "package ice",
				Desc: fmt.Sprintf("%s (transitively) stores package variable %s", cf[0], strings.TrimPrefix(h, "G$")), Pos: cf[3], Guard: True, Goal: False, Claimed: true})
		}
		vc.Obls = append(vc.Obls, &Obligation{Name: "package/confined:" + cf[0], Class: "confined", Props: props, Func: "package ice",
			Desc: fmt.Sprintf("%s stores no package-level variable other than {%s} on any path (transitive mod-set, %d heaps)", cf[0], cf[1], len(w.modsets[fn])), Pos: cf[3], Guard: True, Goal: True, Claimed: true})
	}
	// inventory of shared mutable state: every package-level variable is on the reviewed list
	for _, gl := range w.Spec.Globals {
		props := strings.Split(gl[1], ",")
		if !hasProp(props, prop) {
			continue
		}
		allowed := map[string]bool{}
		for _, a := range strings.Fields(gl[0]) {
			allowed[a] = true
		}
		n := 0
		for _, name := range w.TPkg.Scope().Names() {
			if v, ok := w.TPkg.Scope().Lookup(name).(*types.Var); ok {
				n++
				if !allowed[name] {
					vc.Obls = append(vc.Obls, &Obligation{Name: "package/globals:" + name, Class: "inventory", Props: props, Func: "package ice",
						Desc: fmt.Sprintf("package-level variable %s (%s) is not on the reviewed list of shared state", name, v.Type()), Pos: gl[2], Guard: True, Goal: False, Claimed: true})
				}
			}
		}
		vc.Obls = append(vc.Obls, &Obligation{Name: "package/globals", Class: "inventory", Props: props, Func: "package ice",
			Desc: fmt.Sprintf("the package declares no package-level variable outside the reviewed list (%d variables)", n), Pos: gl[2], Guard: True, Goal: True, Claimed: true})
	}
	// inventory of a struct's fields: every field is on the reviewed list (state that outlives a call
	// must be accounted for by the contracts that reset it)
	for _, sfd := range w.Spec.StructFields {
		props := strings.Split(sfd[2], ",")
		if !hasProp(props, prop) {
			continue
		}
		allowed := map[string]bool{}
		for _, a := range strings.Fields(sfd[1]) {
			allowed[a] = true
		}
		tn, ok := w.TPkg.Scope().Lookup(sfd[0]).(*types.TypeName)
		if !ok {
			vc.Obls = append(vc.Obls, &Obligation{Name: "package/structfields:" + sfd[0], Class: "inventory", Props: props, Func: "package ice",
				Desc: fmt.Sprintf("type %s no longer exists", sfd[0]), Pos: sfd[3], Guard: True, Goal: False, Claimed: true})
			continue
		}
		st, _ := tn.Type().Underlying().(*types.Struct)
		n := 0
		for i := 0; st != nil && i < st.NumFields(); i++ {
			n++
			if f := st.Field(i); !allowed[f.Name()] {
				vc.Obls = append(vc.Obls, &Obligation{Name: "package/structfields:" + sfd[0] + "." + f.Name(), Class: "inventory", Props: props, Func: "package ice",
					Desc: fmt.Sprintf("field %s.%s (%s) is not on the reviewed list of the type's state", sfd[0], f.Name(), f.Type()), Pos: sfd[3], Guard: True, Goal: False, Claimed: true})
			}
		}
		vc.Obls = append(vc.Obls, &Obligation{Name: "package/structfields:" + sfd[0], Class: "inventory", Props: props, Func: "package ice",
			Desc: fmt.Sprintf("type %s has no field outside the reviewed list (%d fields)", sfd[0], n), Pos: sfd[3], Guard: True, Goal: True, Claimed: true})
	}
	// inventory of range-over-map loops (iteration order is unspecified) in the code reachable from a root
	for _, mr := range w.Spec.MapRanges {
		props := strings.Split(mr[2], ",")
		if !hasProp(props, prop) {
			continue
		}
		want := map[string]int{}
		for _, kv := range strings.Fields(mr[1]) {
			if i := strings.LastIndex(kv, "="); i > 0 {
				k := 0
				fmt.Sscanf(kv[i+1:], "%d", &k)
				want[kv[:i]] = k
			}
		}
		got := map[string]int{}
		for f := range w.reachFrom([]string{mr[0]}) {
			for _, b := range f.Blocks {
				for _, ins := range b.Instrs {
					if r, ok := ins.(*ssa.Range); ok {
						if _, isMap := r.X.Type().Underlying().(*types.Map); isMap {
							got[w.FnName(f)]++
						}
					}
				}
			}
		}
		var names []string
		for k := range got {
			names = append(names, k)
		}
		for k := range want {
			if _, ok := got[k]; !ok {
				names = append(names, k)
			}
		}
		sort.Strings(names)
		for _, k := range names {
			if got[k] != want[k] {
				vc.Obls = append(vc.Obls, &Obligation{Name: "package/mapranges:" + k, Class: "inventory", Props: props, Func: "package ice",
					Desc: fmt.Sprintf("%s has %d range-over-map loops, the reviewed inventory says %d (iteration order must not reach the output)", k, got[k], want[k]), Pos: mr[3], Guard: True, Goal: False, Claimed: true})
			}
		}
		vc.Obls = append(vc.Obls, &Obligation{Name: "package/mapranges:" + mr[0], Class: "inventory", Props: props, Func: "package ice",
			Desc: fmt.Sprintf("range-over-map loops reachable from %s match the reviewed inventory (%d functions)", mr[0], len(names)), Pos: mr[3], Guard: True, Goal: True, Claimed: true})
	}
	seen := map[string]bool{}
	for _, gi := range w.Spec.GlobalInvs {
		toks, _ := lexSpec(gi[0])
		for _, tk := range toks {
			if tk.kind != "id" || seen[tk.s] {
				continue
			}
			v, ok := w.TPkg.Scope().Lookup(tk.s).(*types.Var)
			if !ok || v == nil {
				continue
			}
			seen[tk.s] = true
			for _, f := range w.FnAll {
				n := w.FnName(f)
				if strings.HasPrefix(n, "init") {
					continue
				}
				if w.baseMods[f]["G$"+tk.s] {
					vc.Obls = append(vc.Obls, &Obligation{Name: fmt.Sprintf("package/global-frame:%s:%s", tk.s, n), Class: "globalframe", Props: []string{prop}, Func: "package ice",
						Desc: fmt.Sprintf("package variable %s (fact: %s) is stored by %s", tk.s, gi[0], n), Pos: gi[1], Guard: True, Goal: False, Claimed: true})
				}
			}
			// positive obligation so that the check is visible in the counts
			vc.Obls = append(vc.Obls, &Obligation{Name: "package/global-frame:" + tk.s, Class: "globalframe", Props: []string{prop}, Func: "package ice",
				Desc: fmt.Sprintf("package variable %s is stored only by package initialisation (mod-set scan over %d functions)", tk.s, len(w.FnAll)), Pos: gi[1], Guard: True, Goal: True, Claimed: true})
		}
	}
	return vc
}
