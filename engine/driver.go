package main

func runDriver(args []string) int { return 2 }
