package main

import (
	"fmt"
	"os"
	"sort"

	"golang.org/x/tools/go/ssa"
)

func cmdExternals(args []string) int {
	w, err := LoadWorld(repoDir, preludeDir)
	if err != nil {
		fmt.Fprintln(os.Stderr, err)
		return 2
	}
	seen := map[string]string{}
	users := map[string]map[string]bool{}
	for _, f := range w.FnAll {
		for _, b := range f.Blocks {
			for _, ins := range b.Instrs {
				ci, ok := ins.(ssa.CallInstruction)
				if !ok {
					continue
				}
				c := ci.Common()
				name, callee := w.calleeName(c)
				if callee != nil && (callee.Pkg == w.Pkg || (callee.Parent() != nil && callee.Parent().Pkg == w.Pkg)) {
					continue
				}
				if name == "" {
					name = "funcvalue " + c.Value.Type().String()
				}
				seen[name] = c.Signature().String()
				if users[name] == nil {
					users[name] = map[string]bool{}
				}
				users[name][w.FnName(f)] = true
			}
		}
	}
	var names []string
	for n := range seen {
		names = append(names, n)
	}
	sort.Strings(names)
	for _, n := range names {
		mark := " "
		if _, ok := w.Spec.Contracts[n]; ok {
			mark = "*"
		}
		var us []string
		for u := range users[n] {
			us = append(us, u)
		}
		sort.Strings(us)
		fmt.Printf("%s %s  %s   <- %v\n", mark, n, seen[n], us)
	}
	return 0
}
