package main

import (
	"fmt"
	"os"
	"go/ast"
	"go/token"
	"go/types"
	"sort"
	"strings"

	"golang.org/x/tools/go/ssa"
)

// Obligation is one proof goal: facts[0:NFacts] |- Guard => Goal.
type Obligation struct {
	Name   string
	Class  string // pre post inv-init inv-step frame nil idx slice div wrap conv assert map panic cover
	Props  []string
	Func   string
	Desc   string
	Pos    string
	NLines int
	Guard  Term
	Goal   Term
	Claimed bool
	// filled by the driver
	Result SolverResult
	Params []string // names of SMT constants worth printing from a model
}

// FnVC is the verification-condition form of one function.
type FnVC struct {
	Fn          *ssa.Function
	Name        string
	Lines       []string
	Obls        []*Obligation
	Unsupported []string
	Assumed     []string // unchecked assumptions used by this function
	Externals   []string // unmodelled externals called
	ParamConsts []string
	ReachRet    []Term // reachability of each return (for vacuity)
	PreLines    int    // lines up to end of precondition assumption
	BlockAt     map[int]string
}

type addrKind int

const (
	akField addrKind = iota
	akElem
	akCell
	akGlobal
	akStruct // reference to a struct object (field-wise)
	akArray  // reference to an array object
	akOpaque
)

type Addr struct {
	kind  addrKind
	heap  string
	ref   Term // field: object ref; cell: ref; elem: arr ref; struct: ref
	idx   Term // elem: absolute index
	typ   types.Type
}

type loopInfo struct {
	header *ssa.BasicBlock
	body   map[*ssa.BasicBlock]bool
	ord    int
	spec   *LoopSpec
	mods   map[string]bool
	phiTerm map[*ssa.Phi]Term
	preState *State // state at loop head after havoc
}

type fnTrans struct {
	w    *World
	fn   *ssa.Function
	name string
	c    *Contract
	vc   *FnVC

	vals   map[ssa.Value]Term
	nfresh int
	at     map[*ssa.BasicBlock]Term
	out    map[*ssa.BasicBlock]*State
	edgeC  map[[2]int]Term
	entry  *State
	cur    *State
	curB   *ssa.BasicBlock
	loops  map[*ssa.BasicBlock]*loopInfo
	inLoop map[*ssa.BasicBlock][]*loopInfo
	back   map[[2]int]bool
	debug  map[string][]*ssa.DebugRef
	defers []*ssa.Defer
	claimed map[string]bool
	safetyProps []string
	allProps []string
	retOrd  int
	closures map[ssa.Value]*ssa.MakeClosure
	nOb map[string]int
	tupleVals map[ssa.Value][]Term
	paramTV map[string]TV
	verTop   map[string]Term
	rangeIter map[*ssa.Range]Term
	extClosureArgs []*ssa.MakeClosure
	frameCache *frameSpec
	wfSeen map[*ssa.BasicBlock]map[string]bool
	lemmaOK  map[int]bool
	lemmaErr map[int]string
	userCallback bool
	anchors map[ssa.Instruction]string
	resultNames []string
}

func (f *fnTrans) fresh(prefix string, s Sort) Term {
	f.nfresh++
	n := fmt.Sprintf("%s!%d", sanitize(prefix), f.nfresh)
	f.vc.Lines = append(f.vc.Lines, fmt.Sprintf("(declare-const %s %s)", n, s))
	return Sym(n, s)
}

func (f *fnTrans) define(prefix string, t Term) Term {
	// keep small terms inline
	if len(t.S) < 24 {
		return t
	}
	c := f.fresh(prefix, t.Sort)
	f.vc.Lines = append(f.vc.Lines, fmt.Sprintf("(assert (= %s %s))", c.S, t.S))
	return c
}

func (f *fnTrans) fact(guard, t Term) {
	g := Implies(guard, t)
	if g.S == "true" {
		return
	}
	f.vc.Lines = append(f.vc.Lines, fmt.Sprintf("(assert %s)", g.S))
}

// factOb records a proved-then-assumed obligation; vacuity checks leave these out.
func (f *fnTrans) factOb(guard, t Term) {
	g := Implies(guard, t)
	if g.S == "true" {
		return
	}
	// the assumption carries the tags of the obligation it restates (always the one just
	// created): a run for property P neither checks nor assumes obligations of other
	// properties inside the same function, so P's verdict never rests on them
	tag := ""
	if n := len(f.vc.Obls); n > 0 {
		tag = "[" + strings.Join(f.vc.Obls[n-1].Props, ",") + "]"
	}
	f.vc.Lines = append(f.vc.Lines, fmt.Sprintf("(assert %s) ;ob%s", g.S, tag))
}

func (f *fnTrans) here() Term { return f.at[f.curB] }

func (f *fnTrans) factHere(t Term) { f.fact(f.here(), t) }

func (f *fnTrans) heap(name string) Term {
	if t, ok := f.cur.h[name]; ok {
		return t
	}
	s, ok := f.w.heapSort[name]
	if !ok {
		panic("unknown heap " + name)
	}
	return Sym(name+"@0", s)
}

func (f *fnTrans) setHeap(name string, t Term) {
	v := f.define(name, t)
	f.cur.h[name] = v
	f.noteVersion(name, v)
}

func (f *fnTrans) havocHeap(name string) {
	v := f.fresh(name, f.w.heapSort[name])
	f.cur.h[name] = v
	f.noteVersion(name, v)
}

// noteVersion remembers the allocation counter in force when a heap version came into being.
func (f *fnTrans) noteVersion(name string, v Term) {
	if name == "G$allocTop" {
		return
	}
	if f.verTop == nil {
		f.verTop = map[string]Term{}
	}
	if _, seen := f.verTop[v.S]; !seen {
		f.verTop[v.S] = f.heap("G$allocTop")
	}
}

// wfSeenMap: heap versions whose well-formedness axiom has been emitted, per block
// (facts are guarded by the block they are emitted in).
func (f *fnTrans) wfSeenMap() map[string]bool {
	if f.wfSeen == nil {
		f.wfSeen = map[*ssa.BasicBlock]map[string]bool{}
	}
	m := f.wfSeen[f.curB]
	if m == nil {
		m = map[string]bool{}
		f.wfSeen[f.curB] = m
	}
	return m
}

func (f *fnTrans) topForVersion(v Term) (Term, bool) {
	if strings.HasSuffix(v.S, "@0") {
		if t, ok := f.entry.h["G$allocTop"]; ok {
			return t, true
		}
		return Sym("G$allocTop@0", SInt), true
	}
	t, ok := f.verTop[v.S]
	return t, ok
}

func (f *fnTrans) posOf(p token.Pos) string {
	if !p.IsValid() {
		return ""
	}
	ps := f.w.Fset.Position(p)
	return fmt.Sprintf("%s:%d", shortFile(ps.Filename), ps.Line)
}

func shortFile(s string) string {
	if i := strings.LastIndex(s, "/"); i >= 0 {
		return s[i+1:]
	}
	return s
}

func (f *fnTrans) oblige(class, desc string, pos token.Pos, props []string, guard, goal Term) *Obligation {
	k := f.nOb[class]
	f.nOb[class] = k + 1
	o := &Obligation{
		Name: fmt.Sprintf("%s/%s#%d", f.name, class, k), Class: class, Props: props, Func: f.name,
		Desc: desc, Pos: f.posOf(pos), NLines: len(f.vc.Lines), Guard: guard, Goal: goal, Claimed: true,
	}
	f.vc.Obls = append(f.vc.Obls, o)
	return o
}

// safety emits an automatic obligation of a class if the function claims it,
// and in any case continues under the assumption that it held.
func (f *fnTrans) safety(class, desc string, pos token.Pos, cond Term) {
	if cond.S == "true" {
		return
	}
	if f.claimed[class] {
		f.oblige(class, desc, pos, f.safetyProps, f.here(), cond)
	} else if class == "wrap" || class == "conv" {
		f.noteAssumed("machine arithmetic treated as mathematical (unchecked " + class + " sites) in " + f.name)
	}
	f.factHere(cond)
}

func (f *fnTrans) noteAssumed(s string) {
	for _, a := range f.vc.Assumed {
		if a == s {
			return
		}
	}
	f.vc.Assumed = append(f.vc.Assumed, s)
}

func (f *fnTrans) unsupported(format string, a ...interface{}) {
	m := fmt.Sprintf(format, a...)
	for _, u := range f.vc.Unsupported {
		if u == m {
			return
		}
	}
	f.vc.Unsupported = append(f.vc.Unsupported, m)
}

func (f *fnTrans) rangeFact(t Term, typ types.Type) Term {
	if t.Sort == SInt {
		if lo, hi, ok := intRange(typ); ok {
			return And(Le(IntLitStr(lo), t), Le(t, IntLitStr(hi)))
		}
		switch typ.Underlying().(type) {
		case *types.Pointer, *types.Map, *types.Signature, *types.Chan:
			return And(Ge(t, IntLit(0)), Le(App("root", SInt, t), f.heap("G$allocTop")), f.typeInv(t, typ))
		case *types.Interface:
			// whatever finished object of the package is behind the interface satisfies its type invariant
			out := []Term{Ge(t, IntLit(0)), Le(App("root", SInt, t), f.heap("G$allocTop"))}
			seenT := map[string]bool{}
			for _, ti := range f.w.Spec.TypeInvs {
				if seenT[ti[0]] {
					continue
				}
				seenT[ti[0]] = true
				if obj, ok := f.w.TPkg.Scope().Lookup(ti[0]).(*types.TypeName); ok {
					pt := types.NewPointer(obj.Type())
					if types.Implements(pt, typ.Underlying().(*types.Interface)) {
						out = append(out, Implies(And(Ne(t, IntLit(0)), Eq(App("dyntype", SInt, t), f.w.Tag(pt))), f.typeInv(t, pt)))
					}
				}
			}
			return And(out...)
		}
	}
	if t.Sort == SSlice {
		return And(Le(IntLit(0), SlOff(t)), Le(IntLit(0), SlLen(t)), Le(SlLen(t), SlCap(t)), Ge(SlArr(t), IntLit(0)),
			Le(App("root", SInt, SlArr(t)), f.heap("G$allocTop")),
			Implies(Eq(SlArr(t), IntLit(0)), Eq(SlCap(t), IntLit(0))))
	}
	return True
}

// ---------------------------------------------------------------------------
// values

func (f *fnTrans) val(v ssa.Value) Term {
	if t, ok := f.vals[v]; ok {
		return t
	}
	switch v := v.(type) {
	case *ssa.Const:
		if v.Value == nil {
			return f.w.Zero(v.Type())
		}
		return f.w.constTerm(v.Value, v.Type())
	case *ssa.Global:
		t := deref(v.Type())
		if isStructType(t) {
			return f.w.GAddr(v.Name())
		}
		f.unsupported("address of scalar global %s used as a value", v.Name())
		return IntLit(0)
	case *ssa.Function:
		return f.w.FnAddr(v.String())
	case *ssa.FieldAddr, *ssa.IndexAddr:
		a := f.addrOf(v)
		if a.kind == akStruct || a.kind == akArray || a.kind == akOpaque {
			return a.ref
		}
		f.unsupported("address of a scalar field/element escapes: %s", v)
		return IntLit(0)
	case *ssa.Builtin:
		return IntLit(0)
	}
	f.unsupported("value %s (%T) used before definition", v.Name(), v)
	return IntLit(0)
}

func (f *fnTrans) declConsts() {
	for n := range f.w.strLits {
		_ = n
	}
}

// addrOf computes the location a pointer-typed SSA value denotes.
func (f *fnTrans) addrOf(p ssa.Value) Addr {
	pt, ok := p.Type().Underlying().(*types.Pointer)
	if !ok {
		f.unsupported("addrOf non-pointer %s", p)
		return Addr{kind: akOpaque, ref: IntLit(0)}
	}
	elem := pt.Elem()
	switch v := p.(type) {
	case *ssa.FieldAddr:
		base := f.val(v.X)
		bt := deref(v.X.Type())
		st, key, local := f.w.localStruct(bt)
		if st == nil || !local {
			return Addr{kind: akOpaque, ref: f.w.SubRef(f.w.typeKey(bt), fmt.Sprint(v.Field), base), typ: elem}
		}
		fl := st.Field(v.Field)
		if isStructType(fl.Type()) {
			r := f.w.SubRef(key, fl.Name(), base)
			if _, _, l2 := f.w.localStruct(fl.Type()); l2 {
				return Addr{kind: akStruct, ref: r, typ: fl.Type()}
			}
			return Addr{kind: akOpaque, ref: r, typ: fl.Type()}
		}
		if _, isArr := fl.Type().Underlying().(*types.Array); isArr {
			return Addr{kind: akArray, ref: f.w.SubRef(key, fl.Name(), base), typ: fl.Type()}
		}
		return Addr{kind: akField, heap: f.w.FieldHeap(key, fl.Name(), f.w.SortOf(fl.Type())), ref: base, typ: fl.Type()}
	case *ssa.IndexAddr:
		var arr, idx Term
		var et types.Type
		switch u := v.X.Type().Underlying().(type) {
		case *types.Slice:
			s := f.val(v.X)
			arr, idx, et = SlArr(s), Add(SlOff(s), f.val(v.Index)), u.Elem()
		case *types.Pointer:
			a := u.Elem().Underlying().(*types.Array)
			arr, idx, et = f.val(v.X), f.val(v.Index), a.Elem()
		default:
			f.unsupported("IndexAddr on %s", v.X.Type())
			return Addr{kind: akOpaque, ref: IntLit(0)}
		}
		if isStructType(et) {
			if _, _, local := f.w.localStruct(et); local {
				return Addr{kind: akStruct, ref: f.w.EltRef(arr, idx), typ: et}
			}
			return Addr{kind: akOpaque, ref: f.w.EltRef(arr, idx), typ: et}
		}
		return Addr{kind: akElem, heap: f.w.ElemHeap(et), ref: arr, idx: idx, typ: et}
	case *ssa.Global:
		if isStructType(elem) {
			if _, _, local := f.w.localStruct(elem); local {
				return Addr{kind: akStruct, ref: f.w.GAddr(v.Name()), typ: elem}
			}
			return Addr{kind: akOpaque, ref: f.w.GAddr(v.Name()), typ: elem}
		}
		return Addr{kind: akGlobal, heap: f.w.Heap("G$"+v.Name(), f.w.SortOf(elem)), typ: elem}
	}
	ref := f.val(p)
	if isStructType(elem) {
		if _, _, local := f.w.localStruct(elem); local {
			return Addr{kind: akStruct, ref: ref, typ: elem}
		}
		return Addr{kind: akOpaque, ref: ref, typ: elem}
	}
	if _, isArr := elem.Underlying().(*types.Array); isArr {
		return Addr{kind: akArray, ref: ref, typ: elem}
	}
	return Addr{kind: akCell, heap: f.w.CellHeap(elem), ref: ref, typ: elem}
}

func (f *fnTrans) loadStruct(ref Term, t types.Type) Term {
	st, key, _ := f.w.localStruct(t)
	s := f.w.structSort(t, st, key)
	var args []Term
	for i := 0; i < st.NumFields(); i++ {
		fl := st.Field(i)
		if isStructType(fl.Type()) {
			if _, _, l2 := f.w.localStruct(fl.Type()); l2 {
				args = append(args, f.loadStruct(f.w.SubRef(key, fl.Name(), ref), fl.Type()))
			} else {
				args = append(args, IntLit(0))
			}
			continue
		}
		h := f.w.FieldHeap(key, fl.Name(), f.w.SortOf(fl.Type()))
		args = append(args, Select(f.heap(h), ref))
	}
	if len(args) == 0 {
		args = append(args, IntLit(0))
	}
	return App("mk$"+key, s, args...)
}

func (f *fnTrans) storeStruct(ref Term, t types.Type, v Term) {
	st, key, _ := f.w.localStruct(t)
	for i := 0; i < st.NumFields(); i++ {
		fl := st.Field(i)
		fv := App(key+"$"+fl.Name(), f.w.SortOf(fl.Type()), v)
		if isStructType(fl.Type()) {
			if _, _, l2 := f.w.localStruct(fl.Type()); l2 {
				f.storeStruct(f.w.SubRef(key, fl.Name(), ref), fl.Type(), fv)
			}
			continue
		}
		h := f.w.FieldHeap(key, fl.Name(), f.w.SortOf(fl.Type()))
		f.setHeap(h, Store(f.heap(h), ref, fv))
	}
}

func (f *fnTrans) load(a Addr, pos token.Pos) Term {
	switch a.kind {
	case akField:
		return Select(f.heap(a.heap), a.ref)
	case akElem:
		return Select(Select(f.heap(a.heap), a.ref), a.idx)
	case akCell:
		f.safety("nil", "load through nil pointer", pos, Ne(a.ref, IntLit(0)))
		return Select(f.heap(a.heap), a.ref)
	case akGlobal:
		return f.heap(a.heap)
	case akStruct:
		f.safety("nil", "load through nil pointer", pos, Ne(a.ref, IntLit(0)))
		return f.loadStruct(a.ref, a.typ)
	case akArray:
		arr := a.typ.Underlying().(*types.Array)
		return Select(f.heap(f.w.ElemHeap(arr.Elem())), a.ref)
	}
	return f.fresh("opaque", f.w.SortOf(a.typ))
}

func (f *fnTrans) store(a Addr, v Term, pos token.Pos) {
	switch a.kind {
	case akField:
		f.setHeap(a.heap, Store(f.heap(a.heap), a.ref, v))
	case akElem:
		h := f.heap(a.heap)
		f.setHeap(a.heap, Store(h, a.ref, Store(Select(h, a.ref), a.idx, v)))
	case akCell:
		f.safety("nil", "store through nil pointer", pos, Ne(a.ref, IntLit(0)))
		f.setHeap(a.heap, Store(f.heap(a.heap), a.ref, v))
	case akGlobal:
		f.setHeap(a.heap, v)
	case akStruct:
		f.safety("nil", "store through nil pointer", pos, Ne(a.ref, IntLit(0)))
		f.storeStruct(a.ref, a.typ, v)
	case akArray:
		arr := a.typ.Underlying().(*types.Array)
		h := f.w.ElemHeap(arr.Elem())
		f.setHeap(h, Store(f.heap(h), a.ref, v))
	}
}

// zeroInit writes zero values into a freshly allocated object.
func (f *fnTrans) zeroInit(ref Term, t types.Type) {
	if st, key, local := f.w.localStruct(t); st != nil {
		if !local {
			f.initOpaque(ref, t)
			return
		}
		for i := 0; i < st.NumFields(); i++ {
			fl := st.Field(i)
			if isStructType(fl.Type()) {
				f.zeroInit(f.w.SubRef(key, fl.Name(), ref), fl.Type())
				continue
			}
			h := f.w.FieldHeap(key, fl.Name(), f.w.SortOf(fl.Type()))
			f.setHeap(h, Store(f.heap(h), ref, f.w.Zero(fl.Type())))
		}
		return
	}
	if arr, ok := t.Underlying().(*types.Array); ok {
		h := f.w.ElemHeap(arr.Elem())
		f.setHeap(h, Store(f.heap(h), ref, f.w.Zero(arr)))
		return
	}
	h := f.w.CellHeap(t)
	f.setHeap(h, Store(f.heap(h), ref, f.w.Zero(t)))
}

// initOpaque zero-initialises the ghost fields of an external struct.
func (f *fnTrans) initOpaque(ref Term, t types.Type) {
	gk := (&Env{w: f.w}).ghostKey(t)
	for fld, s := range f.w.ghostField[gk] {
		h := "X$" + sanitize(gk) + "$" + fld
		var z Term
		switch {
		case s == SInt:
			z = IntLit(0)
		case s == SBool:
			z = False
		case s == SSlice:
			z = NilSlice
		default:
			continue
		}
		f.setHeap(h, Store(f.heap(h), ref, z))
	}
}

func (f *fnTrans) alloc() Term {
	top := f.heap("G$allocTop")
	r := f.define("ref", Add(top, IntLit(1)))
	f.cur.h["G$allocTop"] = r
	f.factHere(Eq(App("root", SInt, r), r))
	return r
}

// ---------------------------------------------------------------------------
// spec environments

func (f *fnTrans) baseNames() map[string]TV {
	if f.paramTV != nil {
		return f.paramTV
	}
	m := map[string]TV{}
	for i, p := range f.fn.Params {
		tv := TV{f.vals[p], p.Type()}
		m[p.Name()] = tv
		k := i
		if f.fn.Signature.Recv() != nil {
			if i == 0 {
				m["recv"] = tv
				continue
			}
			k = i - 1
		}
		m[argName(k)] = tv
	}
	for _, fv := range f.fn.FreeVars {
		// captured variable: a cell; the name denotes its content, resolved dynamically
		_ = fv
	}
	f.paramTV = m
	return m
}

// lookupAt resolves a source-level name at block b (values dominating b).
func (f *fnTrans) lookupAt(b *ssa.BasicBlock, st *State, phiOverride map[string]TV) func(string) (TV, bool) {
	return func(name string) (TV, bool) {
		if tv, ok := phiOverride[name]; ok {
			return tv, true
		}
		for _, fv := range f.fn.FreeVars {
			if fv.Name() == name {
				a := f.addrOf(fv)
				sv := *f
				sv.cur = st
				if a.kind == akStruct {
					return TV{a.ref, fv.Type()}, true
				}
				return TV{(&sv).loadNoSafety(a), deref(fv.Type())}, true
			}
		}
		// The reaching definition of the source variable at b: among the phis named after it
		// and its debug references in blocks dominating b (a chain in the dominator tree),
		// the latest one.
		var best ssa.Value
		var bestAddr bool
		var bestBlk *ssa.BasicBlock
		bestIdx := -1
		later := func(blk *ssa.BasicBlock, idx int) bool {
			if bestBlk == nil {
				return true
			}
			if blk == bestBlk {
				return idx > bestIdx
			}
			return bestBlk.Dominates(blk)
		}
		if b != nil {
			for _, blk := range f.fn.Blocks {
				if !(blk == b || blk.Dominates(b)) {
					continue
				}
				for i, ins := range blk.Instrs {
					phi, ok := ins.(*ssa.Phi)
					if !ok {
						break
					}
					if phi.Comment != name {
						continue
					}
					if _, seen := f.vals[phi]; seen && later(blk, i) {
						best, bestAddr, bestBlk, bestIdx = phi, false, blk, i
					}
				}
			}
		}
		for _, d := range f.debug[name] {
			db := d.Block()
			if b != nil && !(db == b || db.Dominates(b)) {
				continue
			}
			if _, ok := f.vals[d.X]; !ok {
				if _, isC := d.X.(*ssa.Const); !isC {
					continue
				}
			}
			idx := 0
			for i, ins := range db.Instrs {
				if ins == ssa.Instruction(d) {
					idx = i
				}
			}
			if b == nil || later(db, idx) {
				best, bestAddr, bestBlk, bestIdx = d.X, d.IsAddr, db, idx
			}
		}
		if best == nil {
			// address-taken locals and named results kept in cells: find the cell by its name
			for _, blk := range f.fn.Blocks {
				if b != nil && !(blk == b || blk.Dominates(b)) {
					continue
				}
				for _, ins := range blk.Instrs {
					if a, ok := ins.(*ssa.Alloc); ok && a.Comment == name {
						if _, seen := f.vals[a]; seen {
							best, bestAddr = a, true
						}
					}
				}
			}
		}
		if best != nil {
			if bestAddr {
				a := f.addrOf(best)
				sv := *f
				sv.cur = st
				if a.kind == akStruct || a.kind == akOpaque {
					return TV{a.ref, best.Type()}, true
				}
				return TV{(&sv).loadNoSafety(a), deref(best.Type())}, true
			}
			return TV{f.val(best), best.Type()}, true
		}
		return TV{}, false
	}
}

func (f *fnTrans) loadNoSafety(a Addr) Term {
	switch a.kind {
	case akField:
		return Select(f.heap(a.heap), a.ref)
	case akElem:
		return Select(Select(f.heap(a.heap), a.ref), a.idx)
	case akCell:
		return Select(f.heap(a.heap), a.ref)
	case akGlobal:
		return f.heap(a.heap)
	case akStruct:
		return f.loadStruct(a.ref, a.typ)
	}
	return IntLit(0)
}

func (f *fnTrans) env(b *ssa.BasicBlock, st *State, extra map[string]TV) *Env {
	e := &Env{w: f.w, names: f.baseNames(), st: st, old: f.entry, lets: map[string]SExpr{}}
	e.emit = func(t Term) { f.factHere(t) }
	e.topFor = f.topForVersion
	e.wfSeen = f.wfSeenMap()
	e.objInv = f.typeInvIn
	e.rangeIters = func(n int) (Term, string, bool) {
		k := 0
		for _, blk := range f.fn.Blocks {
			for _, ins := range blk.Instrs {
				if r, ok := ins.(*ssa.Range); ok {
					if m, ok := r.X.Type().Underlying().(*types.Map); ok {
						if k == n {
							it, seen := f.rangeIter[r]
							return it, f.w.VisitedHeap(m), seen
						}
						k++
					}
				}
			}
		}
		return Term{}, "", false
	}
	if f.c != nil {
		for _, l := range f.c.Lets {
			ex, err := ParseSpecExpr(l[1])
			if err != nil {
				f.unsupported("let %s: %v", l[0], err)
				continue
			}
			e.lets[l[0]] = ex
		}
	}
	e.lookup = f.lookupAt(b, st, extra)
	// old(...) may name captured variables: their content on entry
	entryLook := f.lookupAt(f.fn.Blocks[0], f.entry, nil)
	e.oldLookup = func(n string) (TV, bool) {
		for _, fv := range f.fn.FreeVars {
			if fv.Name() == n {
				return entryLook(n)
			}
		}
		return TV{}, false
	}
	return e
}

// ---------------------------------------------------------------------------
// CFG analysis

func (f *fnTrans) analyzeLoops() {
	f.loops = map[*ssa.BasicBlock]*loopInfo{}
	f.inLoop = map[*ssa.BasicBlock][]*loopInfo{}
	f.back = map[[2]int]bool{}
	for _, b := range f.fn.Blocks {
		for _, s := range b.Succs {
			if s.Dominates(b) || s == b {
				f.back[[2]int{b.Index, s.Index}] = true
				li := f.loops[s]
				if li == nil {
					li = &loopInfo{header: s, body: map[*ssa.BasicBlock]bool{s: true}, mods: map[string]bool{}}
					f.loops[s] = li
				}
				// natural loop of back edge b->s
				stack := []*ssa.BasicBlock{b}
				for len(stack) > 0 {
					x := stack[len(stack)-1]
					stack = stack[:len(stack)-1]
					if li.body[x] {
						continue
					}
					li.body[x] = true
					stack = append(stack, x.Preds...)
				}
			}
		}
	}
	var hs []*ssa.BasicBlock
	for h := range f.loops {
		hs = append(hs, h)
	}
	sort.Slice(hs, func(i, j int) bool { return hs[i].Index < hs[j].Index })
	for i, h := range hs {
		li := f.loops[h]
		li.ord = i
		if f.c != nil {
			li.spec = f.c.Loops[i]
			if len(f.c.AllLoopInv) > 0 || len(f.c.Protect) > 0 {
				ns := &LoopSpec{}
				if li.spec != nil {
					*ns = *li.spec
				}
				ns.Invariants = append([]*Clause{}, ns.Invariants...)
				// a loop whose header carries the pending error (for x != nil && err == nil { ...; x, err = next() })
				// is re-entered with the failure flag raised only to leave at once: the schema's
				// "flag unchanged" invariant is stated modulo that pending error
				// (only where the error carried into the header comes from a call that can raise the flag)
				errFrom := map[string]bool{} // ghost flags a call defining the header's err may raise
				for _, ins := range h.Instrs {
					phi, ok := ins.(*ssa.Phi)
					if !ok || phi.Comment != "err" || !isErrorType(phi.Type()) {
						continue
					}
					for _, e := range phi.Edges {
						if ex, ok := e.(*ssa.Extract); ok {
							e = ex.Tuple
						}
						call, ok := e.(*ssa.Call)
						if !ok {
							continue
						}
						if _, callee := f.w.calleeName(call.Common()); callee != nil {
							for hp := range f.w.modsets[callee] {
								errFrom[hp] = true
							}
						}
					}
				}
				for _, cl := range f.c.AllLoopInv {
					if cl.Line == "schema:err" && strings.Contains(cl.Src, " == old(") {
						gv := strings.TrimSpace(cl.Src[:strings.Index(cl.Src, " == old(")])
						if errFrom["G$"+gv] {
							w := mustClause("invariant", cl.Src+" || err != nil", cl.Props, cl.Line)
							ns.Invariants = append(ns.Invariants, w, mustClause("invariant", "old("+gv+") ==> "+gv, cl.Props, cl.Line))
							continue
						}
					}
					ns.Invariants = append(ns.Invariants, cl)
				}
				li.spec = ns
			}
		}
		for b := range li.body {
			f.inLoop[b] = append(f.inLoop[b], li)
		}
		f.loopMods(li)
	}
}

func (f *fnTrans) loopMods(li *loopInfo) {
	for b := range li.body {
		for _, ins := range b.Instrs {
			switch ins := ins.(type) {
			case *ssa.Store:
				for _, h := range f.w.storeHeaps(ins.Addr) {
					li.mods[h] = true
				}
			case *ssa.MapUpdate:
				v, d := f.w.MapHeaps(ins.Map.Type().Underlying().(*types.Map))
				li.mods[v], li.mods[d] = true, true
			case *ssa.Alloc:
				li.mods["G$allocTop"] = true
				for _, h := range f.w.storeHeaps(ins) {
					li.mods[h] = true
				}
			case *ssa.Next:
				if rng, ok := ins.Iter.(*ssa.Range); ok {
					if m, ok := rng.X.Type().Underlying().(*types.Map); ok {
						li.mods[f.w.VisitedHeap(m)] = true
					}
				}
			case *ssa.Range:
				if m, ok := ins.X.Type().Underlying().(*types.Map); ok {
					li.mods[f.w.VisitedHeap(m)] = true
					li.mods["G$allocTop"] = true
				}
			case *ssa.MakeSlice, *ssa.MakeMap, *ssa.MakeClosure, *ssa.MakeInterface, *ssa.Convert:
				for _, h := range f.instrAllocMods(ins) {
					li.mods[h] = true
				}
			case ssa.CallInstruction:
				for _, h := range f.callMods(ins.Common()) {
					li.mods[h] = true
				}
			}
		}
	}
}

func (f *fnTrans) instrAllocMods(ins ssa.Instruction) []string {
	out := []string{"G$allocTop"}
	switch ins := ins.(type) {
	case *ssa.MakeSlice:
		sl := ins.Type().Underlying().(*types.Slice)
		if st, key, local := f.w.localStruct(sl.Elem()); st != nil && local {
			out = append(out, f.w.structHeaps(st, key)...)
		} else {
			out = append(out, f.w.ElemHeap(sl.Elem()))
		}
	case *ssa.MakeMap:
		v, d := f.w.MapHeaps(ins.Type().Underlying().(*types.Map))
		out = append(out, v, d)
	case *ssa.Convert:
		if sl, ok := ins.Type().Underlying().(*types.Slice); ok {
			out = append(out, f.w.ElemHeap(sl.Elem()))
		}
	}
	return out
}

// callMods: heap variables a call may modify (coarse).
func (f *fnTrans) callMods(c *ssa.CallCommon) []string {
	name, callee := f.w.calleeName(c)
	set := map[string]bool{}
	addAll := func(hs []string) {
		for _, h := range hs {
			set[h] = true
		}
	}
	switch {
	case strings.HasPrefix(name, "builtin:"):
		switch name {
		case "builtin:append":
			set["G$allocTop"] = true
			if sl, ok := c.Args[0].Type().Underlying().(*types.Slice); ok {
				if st, key, local := f.w.localStruct(sl.Elem()); st != nil && local {
					addAll(f.w.structHeaps(st, key))
				} else {
					set[f.w.ElemHeap(sl.Elem())] = true
				}
			}
		case "builtin:copy":
			if sl, ok := c.Args[0].Type().Underlying().(*types.Slice); ok {
				set[f.w.ElemHeap(sl.Elem())] = true
			}
		case "builtin:delete":
			v, d := f.w.MapHeaps(c.Args[0].Type().Underlying().(*types.Map))
			set[v], set[d] = true, true
		}
	case c.IsInvoke():
		if ct, ok := f.w.Spec.Contracts[name]; ok {
			addAll(f.w.modHeapsOfContract(ct, c.Signature()))
		}
		for _, g := range f.w.implsOf(c) {
			for h := range f.w.CallSiteMods(f.fn, g, append([]ssa.Value{c.Value}, c.Args...)) {
				set[h] = true
			}
		}
		// function values handed to an interface method may be called by it
		for _, a := range c.Args {
			if isFnTyped(a) {
				f.fnValEffects(a, set)
			}
		}
	case callee == nil:
		// function value
		if mc, ok := f.closures[c.Value]; ok {
			addAll(f.w.ModsetOf(mc.Fn.(*ssa.Function)))
			break
		}
		if pc := f.paramContract(c.Value); pc != nil && pc.HasMod {
			addAll(f.w.modHeapsOfContract(pc, f.fn.Signature))
			break
		}
		fns, user := f.w.FnValueTargets(c.Value)
		for _, g := range fns {
			addAll(f.w.ModsetOf(g))
		}
		if user {
			for _, n := range reentryAPI {
				if g, ok := f.w.Fns[n]; ok {
					var hs []string
					for _, h := range f.w.ModsetOf(g) {
						if !reentryExempt[h] {
							hs = append(hs, h)
						}
					}
					addAll(hs)
				}
			}
		}
	case name == "encoding/binary.Write" || name == "(*github.com/blugelabs/bluge_segment_api.Data).WriteTo":
		set["G$allocTop"] = true
		set[f.w.ElemHeap(types.Typ[types.Uint8])] = true
		wa := c.Args[0]
		if name != "encoding/binary.Write" {
			wa = c.Args[1]
		}
		if iface, ok := wa.Type().Underlying().(*types.Interface); ok {
			if ct, ok := f.w.Spec.Contracts["(io.Writer).Write"]; ok {
				for i := 0; i < iface.NumMethods(); i++ {
					if iface.Method(i).Name() == "Write" {
						addAll(f.w.modHeapsOfContract(ct, iface.Method(i).Type().(*types.Signature)))
					}
				}
			}
			for _, g := range f.w.FnAll {
				if g.Signature.Recv() != nil && g.Name() == "Write" && types.Implements(g.Signature.Recv().Type(), iface) {
					addAll(f.w.ModsetOf(g))
				}
			}
		}
	default:
		inPkg := callee.Pkg == f.w.Pkg || (callee.Parent() != nil && callee.Parent().Pkg == f.w.Pkg)
		ct := f.w.Spec.Contracts[name]
		if ct != nil && (ct.HasMod && (ct.Trusted || !inPkg)) {
			addAll(f.w.modHeapsOfContract(ct, callee.Signature))
		} else if inPkg {
			for h := range f.w.CallSiteMods(f.fn, callee, c.Args) {
				set[h] = true
			}
		}
		if !inPkg {
			for _, h := range f.w.ifaceSliceArgHeaps(name, c) {
				set[h] = true
			}
			for _, a := range c.Args {
				if isFnTyped(a) {
					f.fnValEffects(a, set)
				}
			}
		}
	}
	var out []string
	for h := range set {
		out = append(out, h)
	}
	sort.Strings(out)
	return out
}

func (f *fnTrans) paramContract(v ssa.Value) *Contract {
	if f.c == nil || f.c.ParamSpec == nil {
		return nil
	}
	if p, ok := v.(*ssa.Parameter); ok {
		return f.c.ParamSpec[p.Name()]
	}
	return nil
}

func (f *fnTrans) topoOrder() []*ssa.BasicBlock {
	n := len(f.fn.Blocks)
	indeg := make([]int, n)
	for _, b := range f.fn.Blocks {
		for _, s := range b.Succs {
			if !f.back[[2]int{b.Index, s.Index}] {
				indeg[s.Index]++
			}
		}
	}
	var order []*ssa.BasicBlock
	var ready []*ssa.BasicBlock
	ready = append(ready, f.fn.Blocks[0])
	for len(ready) > 0 {
		sort.Slice(ready, func(i, j int) bool { return ready[i].Index < ready[j].Index })
		b := ready[0]
		ready = ready[1:]
		order = append(order, b)
		for _, s := range b.Succs {
			if f.back[[2]int{b.Index, s.Index}] {
				continue
			}
			indeg[s.Index]--
			if indeg[s.Index] == 0 {
				ready = append(ready, s)
			}
		}
	}
	return order
}

func (f *fnTrans) edgeCond(p, b *ssa.BasicBlock) Term {
	return f.edgeC[[2]int{p.Index, b.Index}]
}

// ---------------------------------------------------------------------------
// main translation

func TranslateFn(w *World, fn *ssa.Function) *FnVC {
	name := w.FnName(fn)
	f := &fnTrans{
		w: w, fn: fn, name: name, c: w.Spec.Contracts[name],
		vc:   &FnVC{Fn: fn, Name: name, BlockAt: map[int]string{}},
		vals: map[ssa.Value]Term{}, at: map[*ssa.BasicBlock]Term{}, out: map[*ssa.BasicBlock]*State{},
		edgeC: map[[2]int]Term{}, debug: map[string][]*ssa.DebugRef{}, claimed: map[string]bool{},
		closures: map[ssa.Value]*ssa.MakeClosure{}, nOb: map[string]int{}, tupleVals: map[ssa.Value][]Term{},
		rangeIter: map[*ssa.Range]Term{},
	}
	defer func() {
		if r := recover(); r != nil {
			if se, ok := r.(specErr); ok {
				f.unsupported("spec error: %s", se.msg)
				return
			}
			panic(r)
		}
	}()
	if len(fn.Blocks) == 0 {
		f.unsupported("no body")
		return f.vc
	}
	w.Heap("G$allocTop", SInt)
	if f.c != nil {
		for _, s := range f.c.Safety {
			f.claimed[s] = true
		}
		f.safetyProps = f.c.SafetyProps
		f.allProps = contractProps(f.c)
	}
	for _, b := range fn.Blocks {
		for _, ins := range b.Instrs {
			if d, ok := ins.(*ssa.DebugRef); ok {
				if id, ok := d.Expr.(*ast.Ident); ok {
					f.debug[id.Name] = append(f.debug[id.Name], d)
				}
			}
		}
	}
	w.extraTypes = map[string]types.Type{}
	for _, fv := range fn.FreeVars {
		w.extraTypes[fv.Name()] = deref(fv.Type())
	}
	f.analyzeLoops()
	f.computeAnchors()

	// entry state
	f.cur = NewState()
	f.entry = f.cur
	entryB := fn.Blocks[0]
	f.curB = entryB
	f.at[entryB] = True
	f.fact(True, Ge(f.heap("G$allocTop"), IntLit(0)))
	for _, p := range fn.Params {
		t := f.fresh("p_"+p.Name(), w.SortOf(p.Type()))
		f.vals[p] = t
		f.vc.ParamConsts = append(f.vc.ParamConsts, t.S)
		if f.isConstructing(p) {
			// the object is handed in half-built: only the reference is well-formed
			f.fact(True, And(Ge(t, IntLit(0)), Le(App("root", SInt, t), f.heap("G$allocTop"))))
			continue
		}
		f.fact(True, f.rangeFact(t, p.Type()))
	}
	for _, fv := range fn.FreeVars {
		t := f.fresh("fv_"+fv.Name(), SInt)
		f.vals[fv] = t
		f.fact(True, And(Gt(t, IntLit(0)), Le(App("root", SInt, t), f.heap("G$allocTop"))))
	}
	for _, n := range w.TPkg.Scope().Names() {
		if v, ok := w.TPkg.Scope().Lookup(n).(*types.Var); ok {
			switch v.Type().Underlying().(type) {
			case *types.Pointer, *types.Map, *types.Slice:
				h := w.Heap("G$"+n, w.SortOf(v.Type()))
				f.fact(True, f.rangeFact(f.heap(h), v.Type()))
			}
		}
	}
	for _, gi := range w.Spec.GlobalInvs {
		ex, err := ParseSpecExpr(gi[0])
		if err != nil {
			f.unsupported("%s: globalinv: %v", gi[1], err)
			continue
		}
		env := &Env{w: w, names: map[string]TV{}, st: f.cur, old: f.cur, lets: map[string]SExpr{}}
		t, err := env.EvalBool(ex)
		if err != nil {
			f.unsupported("%s: globalinv: %v", gi[1], err)
			continue
		}
		f.fact(True, t)
		f.noteAssumed("package-level variable fact (set by initialisation, never stored elsewhere): " + gi[0])
	}
	if f.c != nil {
		env := f.env(entryB, f.entry, nil)
		env.old = f.entry
		for _, cl := range append(append([]*Clause{}, f.c.Requires...), f.c.Assumes...) {
			t, err := env.EvalBool(cl.Expr)
			if err != nil {
				f.unsupported("%s: requires %q: %v", cl.Line, cl.Src, err)
				continue
			}
			f.fact(True, t)
			if cl.Kind == "assume" {
				f.noteAssumed(fmt.Sprintf("assume in %s: %s", f.name, cl.Src))
			}
		}
	}
	f.vc.PreLines = len(f.vc.Lines)
	f.entry = f.cur.Clone()

	for _, b := range f.topoOrder() {
		f.block(b)
	}
	var lemmaIdx []int
	for i := range f.lemmaErr {
		lemmaIdx = append(lemmaIdx, i)
	}
	sort.Ints(lemmaIdx)
	for _, i := range lemmaIdx {
		e := f.lemmaErr[i]
		if !f.lemmaOK[i] {
			if strings.Contains(e, "unknown identifier") && f.c != nil && i < len(f.c.Lemmas) {
				// the lemma names something the code no longer has, at every return: cannot be discharged
				cl := f.c.Lemmas[i]
				o := f.oblige("lemma", fmt.Sprintf("lemma %s  [cannot be stated on this code: %s]", cl.Src, e), fn.Pos(), f.propsOf(cl), True, False)
				o.Name = fmt.Sprintf("%s/lemma%d", f.name, i)
				continue
			}
			f.unsupported("%s", e)
		}
	}
	// a positional clause whose program point no longer exists cannot be discharged
	if f.c != nil && f.c.At != nil {
		present := map[string]bool{}
		for _, a := range f.anchors {
			present[a] = true
		}
		for _, li := range f.loops {
			if li != nil {
				present[fmt.Sprintf("loopexit#%d", li.ord)] = true
			}
		}
		var missing []string
		for a := range f.c.At {
			if !present[a] {
				missing = append(missing, a)
			}
		}
		sort.Strings(missing)
		for _, a := range missing {
			for k, cl := range f.c.At[a] {
				o := f.oblige("lemma", fmt.Sprintf("at %s: %s  [the function has no such program point]", a, cl.Src), fn.Pos(), f.propsOf(cl), True, False)
				o.Name = fmt.Sprintf("%s/at:%s/lemma%d", f.name, a, k)
			}
		}
	}
	// obligation names are identifiers (query files, known findings, evidence): two clauses
	// carrying the same label get distinct names
	seenName := map[string]int{}
	for _, o := range f.vc.Obls {
		seenName[o.Name]++
		if k := seenName[o.Name]; k > 1 {
			o.Name = fmt.Sprintf("%s~%d", o.Name, k)
		}
	}
	return f.vc
}

func contractProps(c *Contract) []string {
	set := map[string]bool{}
	for _, p := range c.ProtectProps {
		set[p] = true
	}
	for _, p := range c.ExtraProps {
		set[p] = true
	}
	for _, p := range c.FramesProps {
		set[p] = true
	}
	for _, cls := range c.At {
		for _, cl := range cls {
			for _, p := range cl.Props {
				set[p] = true
			}
		}
	}
	add := func(cls []*Clause) {
		for _, cl := range cls {
			for _, p := range cl.Props {
				set[p] = true
			}
		}
	}
	add(c.Requires)
	add(c.Ensures)
	add(c.Lemmas)
	add(c.AllLoopInv)
	for _, l := range c.Loops {
		add(l.Invariants)
	}
	for _, p := range c.SafetyProps {
		set[p] = true
	}
	var out []string
	for p := range set {
		out = append(out, p)
	}
	sort.Strings(out)
	return out
}

func (f *fnTrans) propsOf(cl *Clause) []string {
	if len(cl.Props) > 0 {
		return cl.Props
	}
	return f.allProps
}

func (f *fnTrans) block(b *ssa.BasicBlock) {
	f.curB = b
	li := f.loops[b]
	if b.Index != 0 {
		// reachability and incoming state
		var conds []Term
		var preds []*ssa.BasicBlock
		for _, p := range b.Preds {
			if f.back[[2]int{p.Index, b.Index}] {
				continue
			}
			if _, ok := f.at[p]; !ok {
				continue // unreachable predecessor (not in topo order)
			}
			preds = append(preds, p)
			conds = append(conds, f.edgeCond(p, b))
		}
		at := f.fresh(fmt.Sprintf("at_b%d", b.Index), SBool)
		f.vc.Lines = append(f.vc.Lines, fmt.Sprintf("(assert (= %s %s))", at.S, Or(conds...).S))
		f.at[b] = at
		f.vc.BlockAt[b.Index] = at.S
		if li != nil {
			f.loopEntry(li, preds, conds)
		} else {
			f.mergeStates(b, preds, conds)
		}
	}
	f.loopExitAnchors(b)
	for _, ins := range b.Instrs {
		f.instr(ins)
	}
	f.out[b] = f.cur
	// back edges out of this block
	for _, s := range b.Succs {
		if f.back[[2]int{b.Index, s.Index}] {
			f.loopBack(f.loops[s], b)
		}
	}
}

func (f *fnTrans) mergeStates(b *ssa.BasicBlock, preds []*ssa.BasicBlock, conds []Term) {
	if len(preds) == 0 {
		f.cur = NewState()
		return
	}
	if len(preds) == 1 {
		f.cur = f.out[preds[0]].Clone()
	} else {
		keys := map[string]bool{}
		for _, p := range preds {
			for k := range f.out[p].h {
				keys[k] = true
			}
		}
		ns := NewState()
		var ks []string
		for k := range keys {
			ks = append(ks, k)
		}
		sort.Strings(ks)
		for _, k := range ks {
			get := func(p *ssa.BasicBlock) Term {
				if t, ok := f.out[p].h[k]; ok {
					return t
				}
				return Sym(k+"@0", f.w.heapSort[k])
			}
			first := get(preds[0])
			same := true
			for _, p := range preds[1:] {
				if get(p).S != first.S {
					same = false
				}
			}
			if same {
				ns.h[k] = first
				continue
			}
			t := get(preds[len(preds)-1])
			for i := len(preds) - 2; i >= 0; i-- {
				t = Ite(conds[i], get(preds[i]), t)
			}
			c := f.fresh(k, t.Sort)
			f.vc.Lines = append(f.vc.Lines, fmt.Sprintf("(assert (= %s %s))", c.S, t.S))
			ns.h[k] = c
		}
		f.cur = ns
	}
	// phis
	for _, ins := range b.Instrs {
		phi, ok := ins.(*ssa.Phi)
		if !ok {
			break
		}
		var t Term
		started := false
		for i := len(preds) - 1; i >= 0; i-- {
			var v Term
			for j, p := range b.Preds {
				if p == preds[i] {
					v = f.val(phi.Edges[j])
				}
			}
			if !started {
				t, started = v, true
			} else {
				t = Ite(conds[i], v, t)
			}
		}
		f.vals[phi] = f.define("phi_"+phi.Comment, t)
	}
}

func (f *fnTrans) phiEdgeVal(phi *ssa.Phi, from *ssa.BasicBlock) Term {
	for j, p := range phi.Block().Preds {
		if p == from {
			return f.val(phi.Edges[j])
		}
	}
	return IntLit(0)
}

func (f *fnTrans) headerPhis(li *loopInfo) []*ssa.Phi {
	var out []*ssa.Phi
	for _, ins := range li.header.Instrs {
		if phi, ok := ins.(*ssa.Phi); ok {
			out = append(out, phi)
		} else {
			break
		}
	}
	return out
}

func (f *fnTrans) checkInvariants(li *loopInfo, kind string, from *ssa.BasicBlock, st *State, guard Term) {
	if li.spec == nil {
		f.protectCheck(kind, fmt.Sprintf("loop%d", li.ord), from, st, guard, li.header.Instrs[0].Pos(), li.mods)
		f.frameLoopCheck(kind, li, from, st, guard, false)
		return
	}
	over := map[string]TV{}
	for _, phi := range f.headerPhis(li) {
		if phi.Comment != "" {
			over[phi.Comment] = TV{f.phiEdgeVal(phi, from), phi.Type()}
		}
	}
	env := f.env(from, st, over)
	for i, cl := range li.spec.Invariants {
		t, err := env.EvalBool(cl.Expr)
		if err != nil {
			if strings.Contains(err.Error(), "unknown identifier") {
				o := f.oblige(kind, fmt.Sprintf("loop %d invariant %d (%s): %s  [cannot be stated on this code: %v]", li.ord, i, kind, cl.Src, err), li.header.Instrs[0].Pos(), f.propsOf(cl), guard, False)
				o.Name = fmt.Sprintf("%s/loop%d/inv%d/%s", f.name, li.ord, i, strings.TrimPrefix(kind, "inv-"))
				continue
			}
			f.unsupported("%s: invariant %q: %v", cl.Line, cl.Src, err)
			continue
		}
		save := f.curB
		o := f.oblige(kind, fmt.Sprintf("loop %d invariant %d (%s): %s", li.ord, i, kind, cl.Src), li.header.Instrs[0].Pos(), f.propsOf(cl), guard, t)
		o.Name = fmt.Sprintf("%s/loop%d/inv%d/%s", f.name, li.ord, i, strings.TrimPrefix(kind, "inv-"))
		if kind == "inv-step" {
			o.Name += fmt.Sprintf("@b%d", from.Index)
		} else if len(li.header.Preds) > 2 {
			o.Name += fmt.Sprintf("@b%d", from.Index)
		}
		f.curB = save
		// later invariants may use earlier ones
		f.factOb(guard, t)
	}
	f.protectCheck(kind, fmt.Sprintf("loop%d", li.ord), from, st, guard, li.header.Instrs[0].Pos(), li.mods)
	f.frameLoopCheck(kind, li, from, st, guard, false)
}

// protectGoal: heap h is unchanged (relative to function entry) on every object that existed at entry.
func (f *fnTrans) protectGoal(h string, st *State) (Term, bool) {
	before := Sym(h+"@0", f.w.heapSort[h])
	if t, ok := f.entry.h[h]; ok {
		before = t
	}
	after, ok := st.h[h]
	if !ok || after.S == before.S {
		return True, false
	}
	top0 := Sym("G$allocTop@0", SInt)
	if t, ok := f.entry.h["G$allocTop"]; ok {
		top0 = t
	}
	return f.frameFormula(h, nil, before, after, top0), true
}

// entryFrame: the function's frame specification (modifies or frames), evaluated at entry.
func (f *fnTrans) entryFrame() (*frameSpec, []string, Term) {
	if f.c == nil || (!f.c.HasMod && len(f.c.Frames) == 0) {
		return nil, nil, Term{}
	}
	if f.frameCache == nil {
		env := f.env(f.fn.Blocks[0], f.entry, nil)
		env.old = f.entry
		if f.c.HasMod {
			f.frameCache = f.frameOfMods(f.c.Modifies, f.fn.Signature, env)
			for _, h := range f.w.ModsetOf(f.fn) {
				if _, ok := f.frameCache.locs[h]; !ok && !f.frameCache.whole[h] && h != "G$allocTop" {
					f.frameCache.locs[h] = nil
				}
			}
		} else {
			f.frameCache = f.frameOfMods(f.c.Frames, f.fn.Signature, env)
		}
	}
	var hs []string
	for h := range f.frameCache.locs {
		if !f.frameCache.whole[h] {
			hs = append(hs, h)
		}
	}
	sort.Strings(hs)
	top0 := Sym("G$allocTop@0", SInt)
	if t, ok := f.entry.h["G$allocTop"]; ok {
		top0 = t
	}
	if !f.w.modsets[f.fn]["G$allocTop"] {
		top0 = Term{}
	}
	return f.frameCache, hs, top0
}

// frameLoopCheck: loops preserve the function's frame (relative to function entry).
func (f *fnTrans) frameLoopCheck(kind string, li *loopInfo, from *ssa.BasicBlock, st *State, guard Term, assumeOnly bool) {
	fs, hs, top0 := f.entryFrame()
	if fs == nil {
		return
	}
	props := f.c.FramesProps
	if len(props) == 0 {
		props = f.allProps
	}
	for _, h := range hs {
		if !li.mods[h] {
			continue
		}
		before := Sym(h+"@0", f.w.heapSort[h])
		if t, ok := f.entry.h[h]; ok {
			before = t
		}
		after, ok := st.h[h]
		if !ok || after.S == before.S {
			continue
		}
		g := f.frameFormula(h, fs.locs[h], before, after, top0)
		if assumeOnly {
			f.fact(guard, g)
			continue
		}
		o := f.oblige("frame", fmt.Sprintf("loop %d keeps the frame of %s (%s)", li.ord, h, kind), li.header.Instrs[0].Pos(), props, guard, g)
		o.Name = fmt.Sprintf("%s/frame:%s@loop%d:%s", f.name, h, li.ord, strings.TrimPrefix(kind, "inv-"))
		if kind == "inv-step" {
			o.Name += fmt.Sprintf("@b%d", from.Index)
		}
		f.factOb(guard, g)
	}
}

func (f *fnTrans) protectCheck(kind, where string, from *ssa.BasicBlock, st *State, guard Term, pos token.Pos, mods map[string]bool) {
	if f.c == nil {
		return
	}
	for _, h := range f.c.Protect {
		if mods != nil && !mods[h] {
			continue
		}
		g, ok := f.protectGoal(h, st)
		if !ok {
			continue
		}
		o := f.oblige("protect", fmt.Sprintf("%s is not modified on objects that existed at entry (%s)", h, kind), pos, f.c.ProtectProps, guard, g)
		o.Name = fmt.Sprintf("%s/protect:%s@%s", f.name, h, where)
		if kind == "inv-step" {
			o.Name += fmt.Sprintf(":step@b%d", from.Index)
		} else if kind == "inv-init" {
			o.Name += ":init"
		}
		f.factOb(guard, g)
	}
}

func (f *fnTrans) loopEntry(li *loopInfo, preds []*ssa.BasicBlock, conds []Term) {
	if li.spec == nil && f.c != nil && len(f.c.Ensures) > 0 {
		// no invariant: "true"; fine for schema-style posts
	}
	for i, p := range preds {
		f.checkInvariants(li, "inv-init", p, f.out[p], conds[i])
	}
	// merged entry state, then havoc
	hdr := li.header
	saveLoops := f.loops[hdr]
	f.loops[hdr] = nil
	_ = saveLoops
	// compute merged state without treating phis (we havoc them)
	f.mergeHeapOnly(preds, conds)
	f.loops[hdr] = li
	beforeHavoc := f.cur.Clone()
	var mods []string
	for h := range li.mods {
		mods = append(mods, h)
	}
	sort.Strings(mods)
	if os.Getenv("ICEVC_TRACE") != "" {
		fmt.Fprintf(os.Stderr, "TRACE %s: loop %d havocs %v\n", f.name, li.ord, mods)
	}
	preTop := f.heap("G$allocTop")
	if li.mods["G$allocTop"] {
		f.havocHeap("G$allocTop")
		f.factHere(Ge(f.heap("G$allocTop"), preTop))
	}
	for _, h := range mods {
		if h != "G$allocTop" {
			f.havocHeap(h)
		}
	}
	li.phiTerm = map[*ssa.Phi]Term{}
	over := map[string]TV{}
	for _, phi := range f.headerPhis(li) {
		t := f.fresh("lphi_"+phi.Comment, f.w.SortOf(phi.Type()))
		f.vals[phi] = t
		li.phiTerm[phi] = t
		f.factHere(f.rangeFact(t, phi.Type()))
		if phi.Comment == "rangeindex" {
			// the hidden index of a range loop starts at -1 and only ever grows by one,
			// and the loop is re-entered only while index+1 < len
			f.factHere(Ge(t, IntLit(-1)))
			for _, ins := range hdr.Instrs {
				if bo, ok := ins.(*ssa.BinOp); ok && bo.Op == token.LSS {
					if inc, ok := bo.X.(*ssa.BinOp); ok && inc.Op == token.ADD && inc.X == ssa.Value(phi) {
						if _, defined := f.vals[bo.Y]; defined {
							f.factHere(Le(Add(t, IntLit(1)), f.val(bo.Y)))
						} else if _, isConst := bo.Y.(*ssa.Const); isConst {
							f.factHere(Le(Add(t, IntLit(1)), f.val(bo.Y)))
						}
					}
				}
			}
		}
		if phi.Comment != "" {
			over[phi.Comment] = TV{t, phi.Type()}
		}
	}
	if f.c != nil {
		for _, h := range f.c.Protect {
			if li.mods[h] {
				if g, ok := f.protectGoal(h, f.cur); ok {
					f.factHere(g)
				}
			}
		}
	}
	f.historyFacts(mods, beforeHavoc)
	// finished objects received as parameters satisfy their type invariant at the loop head too
	// (every store of this function to such an object re-establishes it on the spot)
	for _, p := range f.fn.Params {
		if !f.isConstructing(p) {
			if inv := f.finishedInv(f.vals[p], p.Type()); inv.S != "true" {
				f.factHere(inv)
			}
		}
	}
	f.frameLoopCheck("head", li, hdr, f.cur, f.here(), true)
	li.preState = f.cur.Clone()
	if li.spec != nil {
		env := f.env(hdr, f.cur, over)
		for _, cl := range li.spec.Invariants {
			if f.w.RunningProp != "" && len(cl.Props) > 0 && !hasProp(cl.Props, f.w.RunningProp) {
				// an invariant of another property is neither checked nor assumed in this run
				continue
			}
			t, err := env.EvalBool(cl.Expr)
			if err != nil {
				if !strings.Contains(err.Error(), "unknown identifier") {
					// (an invariant naming an identifier the code no longer has is reported as a failed
					// obligation where it is checked; here it is simply not assumed)
					f.unsupported("%s: invariant %q: %v", cl.Line, cl.Src, err)
				}
				continue
			}
			f.factHere(t)
		}
	}
}

func (f *fnTrans) mergeHeapOnly(preds []*ssa.BasicBlock, conds []Term) {
	if len(preds) == 1 {
		f.cur = f.out[preds[0]].Clone()
		return
	}
	keys := map[string]bool{}
	for _, p := range preds {
		for k := range f.out[p].h {
			keys[k] = true
		}
	}
	ns := NewState()
	var ks []string
	for k := range keys {
		ks = append(ks, k)
	}
	sort.Strings(ks)
	for _, k := range ks {
		get := func(p *ssa.BasicBlock) Term {
			if t, ok := f.out[p].h[k]; ok {
				return t
			}
			return Sym(k+"@0", f.w.heapSort[k])
		}
		t := get(preds[len(preds)-1])
		same := true
		for i := len(preds) - 2; i >= 0; i-- {
			if get(preds[i]).S != t.S {
				same = false
			}
		}
		if !same {
			for i := len(preds) - 2; i >= 0; i-- {
				t = Ite(conds[i], get(preds[i]), t)
			}
			c := f.fresh(k, t.Sort)
			f.vc.Lines = append(f.vc.Lines, fmt.Sprintf("(assert (= %s %s))", c.S, t.S))
			t = c
		}
		ns.h[k] = t
	}
	f.cur = ns
}

func (f *fnTrans) loopBack(li *loopInfo, from *ssa.BasicBlock) {
	guard := f.edgeCond(from, li.header)
	f.checkInvariants(li, "inv-step", from, f.cur, guard)
	if li.spec != nil && li.spec.Decreases != nil {
		overOld := map[string]TV{}
		overNew := map[string]TV{}
		for _, phi := range f.headerPhis(li) {
			if phi.Comment != "" {
				overOld[phi.Comment] = TV{li.phiTerm[phi], phi.Type()}
				overNew[phi.Comment] = TV{f.phiEdgeVal(phi, from), phi.Type()}
			}
		}
		eo := f.env(li.header, li.preState, overOld)
		en := f.env(from, f.cur, overNew)
		o, err1 := eo.EvalAny(li.spec.Decreases)
		n, err2 := en.EvalAny(li.spec.Decreases)
		if err1 != nil || err2 != nil {
			f.unsupported("decreases: %v %v", err1, err2)
			return
		}
		ob := f.oblige("variant", fmt.Sprintf("loop %d variant decreases and is bounded", li.ord), li.header.Instrs[0].Pos(), f.allProps, guard, And(Lt(n.T, o.T), Ge(o.T, IntLit(0))))
		ob.Name = fmt.Sprintf("%s/loop%d/variant@b%d", f.name, li.ord, from.Index)
	}
}

// historyHeaps: the ghost heaps a declared history constraint talks about.
func (w *World) historyHeaps(src string) []string {
	toks, _ := lexSpec(src)
	var out []string
	seen := map[string]bool{}
	for _, tk := range toks {
		if tk.kind == "id" && !seen[tk.s] {
			if _, ok := w.ghostFn[tk.s]; ok {
				seen[tk.s] = true
				out = append(out, "X$_$"+tk.s)
			}
		}
	}
	return out
}

// historyFacts: after the heaps in mods were havocked (by a call or a loop cut), the declared
// two-state invariants relate the new state to the state before.
func (f *fnTrans) historyFacts(mods []string, before *State) {
	for _, hs := range f.w.Spec.Histories {
		touched := false
		for _, h := range f.w.historyHeaps(hs[0]) {
			for _, m := range mods {
				if m == h {
					touched = true
				}
			}
		}
		if !touched {
			continue
		}
		ex, err := ParseSpecExpr(hs[0])
		if err != nil {
			f.unsupported("%s: history: %v", hs[2], err)
			continue
		}
		env := &Env{w: f.w, names: map[string]TV{}, st: f.cur, old: before, lets: map[string]SExpr{}}
		t, err := env.EvalBool(ex)
		if err != nil {
			f.unsupported("%s: history: %v", hs[2], err)
			continue
		}
		f.factHere(t)
	}
}

// isConstructing: the contract declares that this parameter's object is under construction.
func (f *fnTrans) isConstructing(v ssa.Value) bool {
	p, ok := v.(*ssa.Parameter)
	if !ok || f.c == nil {
		return false
	}
	for _, n := range f.c.Constructs {
		if n == p.Name() {
			return true
		}
	}
	return false
}

// finishedInv: what holds of a finished object referenced by t (pointer: its type invariant;
// interface: the invariant of whichever type of the package is behind it), in the current state.
func (f *fnTrans) finishedInv(t Term, typ types.Type) Term {
	switch u := typ.Underlying().(type) {
	case *types.Pointer:
		return f.typeInv(t, typ)
	case *types.Interface:
		var out []Term
		seenT := map[string]bool{}
		for _, ti := range f.w.Spec.TypeInvs {
			if seenT[ti[0]] {
				continue
			}
			seenT[ti[0]] = true
			if obj, ok := f.w.TPkg.Scope().Lookup(ti[0]).(*types.TypeName); ok {
				pt := types.NewPointer(obj.Type())
				if types.Implements(pt, u) {
					out = append(out, Implies(And(Ne(t, IntLit(0)), Eq(App("dyntype", SInt, t), f.w.Tag(pt))), f.typeInv(t, pt)))
				}
			}
		}
		return And(out...)
	}
	return True
}

// typeInvIn: typeInv evaluated in state st.
func (f *fnTrans) typeInvIn(st *State, t Term, typ types.Type) Term {
	save := f.cur
	f.cur = st
	defer func() { f.cur = save }()
	return f.typeInv(t, typ)
}

// typeInv instantiates the declared invariants of a struct type at reference t.
func (f *fnTrans) typeInv(t Term, typ types.Type) Term {
	el := deref(typ)
	n, ok := el.(*types.Named)
	if !ok || n.Obj().Pkg() != f.w.TPkg {
		return True
	}
	var out []Term
	for _, ti := range f.w.Spec.TypeInvs {
		if ti[0] != n.Obj().Name() {
			continue
		}
		// an invariant tagged with properties is part of those properties' checks only: a run for
		// another property neither owes nor assumes it (as for tagged clauses and loop invariants)
		if ti[3] != "" && f.w.RunningProp != "" && !hasProp(strings.Split(ti[3], ","), f.w.RunningProp) {
			continue
		}
		ex, err := ParseSpecExpr(ti[1])
		if err != nil {
			f.unsupported("%s: typeinv: %v", ti[2], err)
			continue
		}
		env := &Env{w: f.w, names: map[string]TV{"self": {t, types.NewPointer(el)}}, st: f.cur, old: f.cur, lets: map[string]SExpr{}}
		b, err := env.EvalBool(ex)
		if err != nil {
			f.unsupported("%s: typeinv: %v", ti[2], err)
			continue
		}
		out = append(out, Implies(Ne(t, IntLit(0)), b))
	}
	return And(out...)
}

// mapInvsFor returns the declared entry invariants that apply to maps of type m
// (a mapinv is declared on a struct field and holds of every map of that field's type).
func (w *World) mapInvsFor(m *types.Map) [][5]string {
	var out [][5]string
	for _, mi := range w.Spec.MapInvs {
		obj, ok := w.TPkg.Scope().Lookup(mi[0]).(*types.TypeName)
		if !ok {
			continue
		}
		st, ok := obj.Type().Underlying().(*types.Struct)
		if !ok {
			continue
		}
		for i := 0; i < st.NumFields(); i++ {
			if st.Field(i).Name() == mi[1] && types.Identical(st.Field(i).Type().Underlying(), m) {
				out = append(out, mi)
			}
		}
	}
	return out
}

// mapInv instantiates one declared entry invariant at key k and value v.
func (f *fnTrans) mapInv(mi [5]string, m *types.Map, k, v Term) (Term, bool) {
	ex, err := ParseSpecExpr(mi[2])
	if err != nil {
		f.unsupported("%s: mapinv: %v", mi[4], err)
		return True, false
	}
	env := &Env{w: f.w, names: map[string]TV{"k": {k, m.Key()}, "v": {v, m.Elem()}}, st: f.cur, old: f.cur, lets: map[string]SExpr{}}
	b, err := env.EvalBool(ex)
	if err != nil {
		f.unsupported("%s: mapinv: %v", mi[4], err)
		return True, false
	}
	return b, true
}

// computeAnchors names the instructions positional lemmas can attach to:
// call:<callee>#k, store:<T>.<field>#k, mapupdate#k, lookup#k (k-th in block order).
func (f *fnTrans) computeAnchors() {
	f.anchors = map[ssa.Instruction]string{}
	n := map[string]int{}
	put := func(ins ssa.Instruction, base string) {
		f.anchors[ins] = fmt.Sprintf("%s#%d", base, n[base])
		n[base]++
	}
	for _, b := range f.fn.Blocks {
		for _, ins := range b.Instrs {
			switch x := ins.(type) {
			case ssa.CallInstruction:
				name, _ := f.w.calleeName(x.Common())
				if name == "" {
					name = "funcvalue"
				}
				put(ins, "call:"+name)
			case *ssa.Store:
				if fa, ok := x.Addr.(*ssa.FieldAddr); ok {
					if st, key, local := f.w.localStruct(deref(fa.X.Type())); st != nil && local {
						put(ins, "store:"+key+"."+st.Field(fa.Field).Name())
					}
				}
			case *ssa.MapUpdate:
				put(ins, "mapupdate")
			case *ssa.Lookup:
				if _, ok := x.X.Type().Underlying().(*types.Map); ok {
					put(ins, "lookup")
				}
			}
		}
	}
}

// atAnchor discharges/assumes the positional clauses attached to an instruction.
func (f *fnTrans) atAnchor(ins ssa.Instruction) {
	if f.c == nil || f.c.At == nil {
		return
	}
	a, ok := f.anchors[ins]
	if !ok {
		return
	}
	extra := map[string]TV{}
	if call, ok := ins.(*ssa.Call); ok {
		// the results of the call this clause is attached to
		rs := call.Common().Signature().Results()
		if tv, ok := f.tupleVals[call]; ok {
			for i := 0; i < rs.Len() && i < len(tv); i++ {
				extra[resName(i)] = TV{tv[i], rs.At(i).Type()}
			}
		} else if v, ok := f.vals[call]; ok && rs.Len() == 1 {
			extra[resName(0)] = TV{v, rs.At(0).Type()}
		}
	}
	f.evalAt(a, ins.Pos(), extra)
}

// loopExitAnchors: block b is entered when loop k is left through its header: clauses attached
// to "loopexit#k" are evaluated in the state at the start of b.
func (f *fnTrans) loopExitAnchors(b *ssa.BasicBlock) {
	if f.c == nil || f.c.At == nil {
		return
	}
	for hdr, li := range f.loops {
		if li == nil || li.body[b] {
			continue
		}
		for _, s := range hdr.Succs {
			if s == b {
				pos := token.NoPos
				if len(b.Instrs) > 0 {
					pos = b.Instrs[0].Pos()
				}
				// the exit block may be shared with other edges (an outer loop's `continue` target):
				// the loop's own variables are then not in scope in b, and b's merged state is not the
				// state on this edge. Evaluate on the edge: header's out-state, header's names, guarded
				// by the exit condition.
				fwd := 0
				for _, p := range b.Preds {
					if !f.back[[2]int{p.Index, b.Index}] {
						fwd++
					}
				}
				if st, ok := f.out[hdr]; ok && fwd > 1 {
					saveB, saveCur, saveAt := f.curB, f.cur, f.at[hdr]
					f.curB, f.cur = hdr, st.Clone()
					f.at[hdr] = And(saveAt, f.edgeCond(hdr, b))
					f.evalAt(fmt.Sprintf("loopexit#%d", li.ord), pos, nil)
					f.curB, f.cur, f.at[hdr] = saveB, saveCur, saveAt
					continue
				}
				f.evalAt(fmt.Sprintf("loopexit#%d", li.ord), pos, nil)
			}
		}
	}
}

func (f *fnTrans) evalAt(a string, pos token.Pos, extra map[string]TV) {
	cls := f.c.At[a]
	if len(cls) == 0 {
		return
	}
	env := f.env(f.curB, f.cur, extra)
	for k, cl := range cls {
		if cl.Kind == "ghostset" {
			eq := strings.Index(cl.Src, "=")
			genv := *env
			f.ghostSet(&genv, strings.TrimSpace(cl.Src[:eq]), strings.TrimSpace(cl.Src[eq+1:]))
			continue
		}
		t, err := env.EvalBool(cl.Expr)
		if err != nil {
			if cl.Kind != "assume" && strings.Contains(err.Error(), "unknown identifier") {
				o := f.oblige("lemma", fmt.Sprintf("at %s: %s  [cannot be stated on this code: %v]", a, cl.Src, err), pos, f.propsOf(cl), f.here(), False)
				o.Name = fmt.Sprintf("%s/at:%s/lemma%d", f.name, a, k)
				continue
			}
			f.unsupported("%s: at %s: %v", cl.Line, a, err)
			continue
		}
		if cl.Kind == "assume" {
			f.factHere(t)
			f.noteAssumed(fmt.Sprintf("assume at %s in %s: %s", a, f.name, cl.Src))
			continue
		}
		o := f.oblige("lemma", fmt.Sprintf("at %s: %s", a, cl.Src), pos, f.propsOf(cl), f.here(), t)
		o.Name = fmt.Sprintf("%s/at:%s/lemma%d", f.name, a, k)
		f.factOb(f.here(), t)
	}
}

// fnValEffects adds what calling function value v (any number of times) may write.
func (f *fnTrans) fnValEffects(v ssa.Value, set map[string]bool) {
	fns, user := f.w.FnValueTargets(stripFnVal(v))
	for _, g := range fns {
		for h := range f.w.modsets[g] {
			set[h] = true
		}
	}
	if user {
		for _, n := range reentryAPI {
			if g, ok := f.w.Fns[n]; ok {
				for h := range f.w.modsets[g] {
					if !reentryExempt[h] {
						set[h] = true
					}
				}
			}
		}
	}
}
