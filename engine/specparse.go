package main

import (
	"fmt"
	"strings"
	"unicode"
)

// ---------------------------------------------------------------------------
// Spec expression AST

type SExpr interface{}

type (
	SIdent  struct{ Name string }
	SNum    struct{ Dec string }
	SBoolL  struct{ V bool }
	SStrL   struct{ V string }
	SUnary  struct {
		Op string
		X  SExpr
	}
	SBinary struct {
		Op   string
		X, Y SExpr
	}
	SCall struct {
		Fn   string
		Args []SExpr
	}
	SSel struct {
		X   SExpr
		Sel string
	}
	SIndex struct {
		X, I SExpr
	}
)

type tok struct {
	kind string // id num str op eof
	s    string
}

func lexSpec(src string) ([]tok, error) {
	var toks []tok
	i := 0
	for i < len(src) {
		c := src[i]
		switch {
		case c == ' ' || c == '\t':
			i++
		case unicode.IsLetter(rune(c)) || c == '_' || c == '$':
			j := i
			for j < len(src) && (unicode.IsLetter(rune(src[j])) || unicode.IsDigit(rune(src[j])) || src[j] == '_' || src[j] == '$') {
				j++
			}
			toks = append(toks, tok{"id", src[i:j]})
			i = j
		case unicode.IsDigit(rune(c)):
			j := i
			for j < len(src) && (unicode.IsDigit(rune(src[j])) || unicode.IsLetter(rune(src[j])) || src[j] == '_') {
				j++
			}
			toks = append(toks, tok{"num", src[i:j]})
			i = j
		case c == '"':
			j := i + 1
			for j < len(src) && src[j] != '"' {
				j++
			}
			if j >= len(src) {
				return nil, fmt.Errorf("unterminated string")
			}
			toks = append(toks, tok{"str", src[i+1 : j]})
			i = j + 1
		default:
			ops := []string{"<==>", "==>", "&&", "||", "==", "!=", "<=", ">=", "<<", ">>", "(", ")", "[", "]", ",", ".", "+", "-", "*", "/", "%", "<", ">", "!", "&", "|", "^", ":"}
			matched := false
			for _, op := range ops {
				if strings.HasPrefix(src[i:], op) {
					toks = append(toks, tok{"op", op})
					i += len(op)
					matched = true
					break
				}
			}
			if !matched {
				return nil, fmt.Errorf("unexpected character %q in %q", c, src)
			}
		}
	}
	toks = append(toks, tok{"eof", ""})
	return toks, nil
}

type sparser struct {
	toks []tok
	p    int
}

func (p *sparser) peek() tok { return p.toks[p.p] }
func (p *sparser) next() tok { t := p.toks[p.p]; p.p++; return t }
func (p *sparser) accept(op string) bool {
	if p.peek().kind == "op" && p.peek().s == op {
		p.p++
		return true
	}
	return false
}
func (p *sparser) expect(op string) error {
	if !p.accept(op) {
		return fmt.Errorf("expected %q, got %q", op, p.peek().s)
	}
	return nil
}

var binPrec = map[string]int{
	"<==>": 1, "==>": 2, "||": 3, "&&": 4,
	"==": 5, "!=": 5, "<": 5, "<=": 5, ">": 5, ">=": 5,
	"+": 6, "-": 6, "|": 6, "^": 6,
	"*": 7, "/": 7, "%": 7, "<<": 7, ">>": 7, "&": 7,
}

func ParseSpecExpr(src string) (SExpr, error) {
	toks, err := lexSpec(src)
	if err != nil {
		return nil, err
	}
	p := &sparser{toks: toks}
	e, err := p.parseBin(1)
	if err != nil {
		return nil, fmt.Errorf("%v in %q", err, src)
	}
	if p.peek().kind != "eof" {
		return nil, fmt.Errorf("trailing %q in %q", p.peek().s, src)
	}
	return e, nil
}

func (p *sparser) parseBin(minPrec int) (SExpr, error) {
	x, err := p.parseUnary()
	if err != nil {
		return nil, err
	}
	for {
		t := p.peek()
		if t.kind != "op" {
			return x, nil
		}
		prec, ok := binPrec[t.s]
		if !ok || prec < minPrec {
			return x, nil
		}
		p.next()
		nextMin := prec + 1
		if t.s == "==>" { // right associative
			nextMin = prec
		}
		y, err := p.parseBin(nextMin)
		if err != nil {
			return nil, err
		}
		x = SBinary{t.s, x, y}
	}
}

func (p *sparser) parseUnary() (SExpr, error) {
	if p.accept("!") {
		x, err := p.parseUnary()
		return SUnary{"!", x}, err
	}
	if p.accept("-") {
		x, err := p.parseUnary()
		return SUnary{"-", x}, err
	}
	return p.parsePostfix()
}

func (p *sparser) parsePostfix() (SExpr, error) {
	var x SExpr
	t := p.next()
	switch t.kind {
	case "num":
		x = SNum{t.s}
	case "str":
		x = SStrL{t.s}
	case "id":
		switch t.s {
		case "true":
			x = SBoolL{true}
		case "false":
			x = SBoolL{false}
		default:
			x = SIdent{t.s}
		}
	case "op":
		if t.s == "(" {
			e, err := p.parseBin(1)
			if err != nil {
				return nil, err
			}
			if err := p.expect(")"); err != nil {
				return nil, err
			}
			x = e
		} else {
			return nil, fmt.Errorf("unexpected %q", t.s)
		}
	default:
		return nil, fmt.Errorf("unexpected end")
	}
	for {
		switch {
		case p.accept("."):
			id := p.next()
			if id.kind != "id" {
				return nil, fmt.Errorf("expected field name after '.'")
			}
			x = SSel{x, id.s}
		case p.accept("["):
			i, err := p.parseBin(1)
			if err != nil {
				return nil, err
			}
			if err := p.expect("]"); err != nil {
				return nil, err
			}
			x = SIndex{x, i}
		case p.peek().kind == "op" && p.peek().s == "(":
			id, ok := x.(SIdent)
			if !ok {
				return x, nil
			}
			p.next()
			var args []SExpr
			if !p.accept(")") {
				for {
					a, err := p.parseBin(1)
					if err != nil {
						return nil, err
					}
					args = append(args, a)
					if p.accept(")") {
						break
					}
					if err := p.expect(","); err != nil {
						return nil, err
					}
				}
			}
			x = SCall{id.Name, args}
		default:
			return x, nil
		}
	}
}

// ---------------------------------------------------------------------------
// Contract file structure

type Clause struct {
	Kind  string   // requires ensures invariant assume assert
	Props []string // property tags
	Src   string
	Expr  SExpr
	Line  string // file:line
	Name  string // optional label
}

type LoopSpec struct {
	Invariants []*Clause
	Decreases  SExpr
	Unroll     int
}

type ModLoc struct {
	Src  string
	Expr SExpr // e.g. c.n  (SSel) or x[*] ...
	All  bool  // "*.f" : whole heap variable
	Heap string
}

type Contract struct {
	Func      string
	Requires  []*Clause
	Ensures   []*Clause
	Assumes   []*Clause // unchecked facts at entry (listed as assumptions)
	Modifies  []string  // raw location expressions; empty+!HasModifies => computed
	HasMod    bool
	Loops     map[int]*LoopSpec
	Pure      bool
	Trusted   bool // contract is assumed, body not verified (prelude / external)
	Mode      string
	Unreach   []int // return ordinals claimed unreachable
	ParamSpec map[string]*Contract
	Lets      [][2]string // name, expr source: abbreviations usable in later clauses
	Line      string
	Safety    []string // classes of automatic obligations claimed: nil idx slice div wrap conv assert map
	SafetyProps []string
	Opts      map[string]string
	Frames     []string // partial frame: within the heap variables these locations live in, nothing else changes
	FramesProps []string
	Lemmas     []*Clause // proved (then assumed) at every return before the postconditions; may name locals
	ExtraProps []string // properties this function carries obligations for without a clause of its own
	AllLoopInv []*Clause  // invariants added to every loop (schemas)
	Protect    []string   // heaps that must not change on pre-existing objects (schemas)
	ProtectProps []string
	At         map[string][]*Clause // positional lemmas: anchor -> clauses
	GhostSets [][2]string // location, expression: ghost assignments executed at function exit
	LeafEnsures  []*Clause // (interface methods) hold only for receivers implemented outside the package
	LeafModifies []string
	Constructs   []string // parameters whose object this function is (still) constructing: its type invariant is owed at return, not before
}

type SpecFn struct {
	Name   string
	Params [][2]string // name, sort-ish type
	Ret    string
	Body   string // empty for uninterpreted
	Rec    bool
}

type Axiom struct {
	Name string
	Vars [][2]string
	Src  string
	Pats []string
}

type GhostField struct {
	Type  string // e.g. bytes.Buffer or ice.Segment
	Field string
	Typ   string
}

type SpecFile struct {
	Contracts map[string]*Contract
	Order     []string
	SpecFns   []*SpecFn
	Axioms    []*Axiom
	Ghosts    []*GhostField
	GhostVars [][2]string // global ghost variables: name, type
	Consts    [][3]string // const checks: name, expected value, props
	GuardedBy  [][4]string // struct, map field, mutex field, props
	MapInvs    [][5]string // struct, map field, expression over k and v, props, file:line
	FieldInvs  [][5]string // struct, field, expression over v (single-field invariant), props, file:line
	Frozen     [][3]string // struct, field, props: written only on objects allocated by the writing function
	Histories  [][3]string // two-state invariant over ghost accessors (expr with old()), props, file:line
	Confined   [][4]string // function, allowed package variables (space separated), props, file:line
	StructFields [][4]string // struct type, reviewed field names (space separated), props, file:line
	Globals    [][3]string // inventory of package-level variables (space separated), props, file:line
	MapRanges  [][4]string // root function, "func=count ..." inventory of range-over-map loops reachable from it, props, file:line
	GlobalInvs [][2]string // facts about package-level variables (established by initialisation), file:line
	TypeInvs  [][4]string // struct type, expression over "self", file:line, property tags ("" = every property)
}

func NewSpecFile() *SpecFile { return &SpecFile{Contracts: map[string]*Contract{}} }

func parseTags(word string) (kw string, tags []string) {
	// "ensures[C11,C12]" -> "ensures", [C11 C12]
	if i := strings.Index(word, "["); i >= 0 && strings.HasSuffix(word, "]") {
		kw = word[:i]
		for _, t := range strings.Split(word[i+1:len(word)-1], ",") {
			t = strings.TrimSpace(t)
			if t != "" {
				tags = append(tags, t)
			}
		}
		return
	}
	return word, nil
}

func parseParams(s string) ([][2]string, error) {
	// "x uint64, b bool"
	var out [][2]string
	s = strings.TrimSpace(s)
	if s == "" {
		return nil, nil
	}
	for _, part := range strings.Split(s, ",") {
		f := strings.Fields(part)
		if len(f) != 2 {
			return nil, fmt.Errorf("bad parameter %q", part)
		}
		out = append(out, [2]string{f[0], f[1]})
	}
	return out, nil
}

// ParseSpecLines parses the logical //@ lines of one file into sf.
func ParseSpecLines(sf *SpecFile, file string, lines []string, trusted bool) error {
	var cur *Contract
	// join continuation lines (ending with backslash)
	type ll struct {
		s  string
		at string
	}
	var logical []ll
	var acc string
	var accAt string
	for i, raw := range lines {
		s := raw
		if acc == "" {
			accAt = fmt.Sprintf("%s:%d", file, i+1)
		}
		if strings.HasSuffix(strings.TrimRight(s, " \t"), "\\") {
			acc += strings.TrimSuffix(strings.TrimRight(s, " \t"), "\\") + " "
			continue
		}
		acc += s
		logical = append(logical, ll{acc, accAt})
		acc = ""
	}
	for _, l := range logical {
		s := strings.TrimSpace(l.s)
		if s == "" || strings.HasPrefix(s, "#") || strings.HasPrefix(s, "//") {
			continue
		}
		if i := strings.Index(s, " // "); i >= 0 {
			s = strings.TrimSpace(s[:i])
		}
		fields := strings.Fields(s)
		kw, tags := parseTags(fields[0])
		rest := strings.TrimSpace(s[len(fields[0]):])
		errf := func(format string, a ...interface{}) error {
			return fmt.Errorf("%s: %s", l.at, fmt.Sprintf(format, a...))
		}
		switch kw {
		case "func":
			name := rest
			if c, ok := sf.Contracts[name]; ok {
				cur = c
			} else {
				cur = &Contract{Func: name, Loops: map[int]*LoopSpec{}, Trusted: trusted, Line: l.at, Opts: map[string]string{}}
				sf.Contracts[name] = cur
				sf.Order = append(sf.Order, name)
			}
		case "spec", "uninterpreted":
			// spec [rec] name(params) ret = body
			rec := false
			r := rest
			if strings.HasPrefix(r, "rec ") {
				rec = true
				r = strings.TrimSpace(r[4:])
			}
			op := strings.Index(r, "(")
			cp := matchParen(r, op)
			if op < 0 || cp < 0 {
				return errf("bad spec function header")
			}
			ps, err := parseParams(r[op+1 : cp])
			if err != nil {
				return errf("%v", err)
			}
			tail := strings.TrimSpace(r[cp+1:])
			fn := &SpecFn{Name: strings.TrimSpace(r[:op]), Params: ps, Rec: rec}
			if eq := strings.Index(tail, "="); eq >= 0 && kw == "spec" {
				fn.Ret = strings.TrimSpace(tail[:eq])
				fn.Body = strings.TrimSpace(tail[eq+1:])
			} else {
				fn.Ret = tail
			}
			sf.SpecFns = append(sf.SpecFns, fn)
		case "axiom":
			// axiom name (x int, y int) : expr
			r := rest
			nameEnd := strings.IndexAny(r, " (")
			if nameEnd < 0 {
				return errf("bad axiom")
			}
			ax := &Axiom{Name: r[:nameEnd]}
			r = strings.TrimSpace(r[nameEnd:])
			if strings.HasPrefix(r, "(") {
				cp := matchParen(r, 0)
				ps, err := parseParams(r[1:cp])
				if err != nil {
					return errf("%v", err)
				}
				ax.Vars = ps
				r = strings.TrimSpace(r[cp+1:])
			}
			r = strings.TrimPrefix(r, ":")
			if i := strings.Index(r, " pattern "); i >= 0 {
				for _, p := range strings.Split(r[i+9:], ";") {
					ax.Pats = append(ax.Pats, strings.TrimSpace(p))
				}
				r = r[:i]
			}
			ax.Src = strings.TrimSpace(r)
			sf.Axioms = append(sf.Axioms, ax)
		case "ghostfield":
			// ghostfield bytes.Buffer len int
			if len(fields) != 4 {
				return errf("ghostfield T name type")
			}
			sf.Ghosts = append(sf.Ghosts, &GhostField{fields[1], fields[2], fields[3]})
		case "guardedby":
			// guardedby[C09] Segment.fieldFSTs m
			if len(fields) != 3 || !strings.Contains(fields[1], ".") {
				return errf("guardedby[props] T.field mutexField")
			}
			tf := strings.SplitN(fields[1], ".", 2)
			sf.GuardedBy = append(sf.GuardedBy, [4]string{tf[0], tf[1], fields[2], strings.Join(tags, ",")})
		case "mapinv":
			// mapinv[C19] Segment.fieldFSTs v != nil   (holds of every entry of every map of that field's type)
			if len(fields) < 3 || !strings.Contains(fields[1], ".") {
				return errf("mapinv[props] T.field expr")
			}
			tf := strings.SplitN(fields[1], ".", 2)
			sf.MapInvs = append(sf.MapInvs, [5]string{tf[0], tf[1], strings.TrimSpace(rest[len(fields[1]):]), strings.Join(tags, ","), l.at})
		case "structfields":
			// structfields[C14] interim a b c: struct T has no field besides these (each is accounted for by reset's contract)
			if len(fields) < 3 {
				return errf("structfields[props] T field ...")
			}
			sf.StructFields = append(sf.StructFields, [4]string{fields[1], strings.Join(fields[2:], " "), strings.Join(tags, ","), l.at})
		case "globals":
			// globals[C09] a b c: the package has no package-level variable besides these
			sf.Globals = append(sf.Globals, [3]string{strings.Join(fields[1:], " "), strings.Join(tags, ","), l.at})
		case "mapranges":
			// mapranges[C14] root f=1 g=2: functions reachable from root contain exactly these range-over-map loops
			if len(fields) < 2 {
				return errf("mapranges[props] root func=count ...")
			}
			sf.MapRanges = append(sf.MapRanges, [4]string{fields[1], strings.Join(fields[2:], " "), strings.Join(tags, ","), l.at})
		case "confined":
			// confined[C14] newWithChunkMode encoder decoder   (stores no other package-level variable, transitively)
			if len(fields) < 2 {
				return errf("confined[props] func [allowed package variables...]")
			}
			sf.Confined = append(sf.Confined, [4]string{fields[1], strings.Join(fields[2:], " "), strings.Join(tags, ","), l.at})
		case "history":
			// history[C11] forall(r, isCHW(r) ==> outlen(r) >= old(outlen(r)))   (transitive two-state invariant of ghost state)
			sf.Histories = append(sf.Histories, [3]string{rest, strings.Join(tags, ","), l.at})
		case "frozen":
			// frozen[C08] Dictionary.sb Dictionary.fst   (set during construction only)
			if len(fields) < 2 {
				return errf("frozen[props] T.field ...")
			}
			for _, tfs := range fields[1:] {
				tf := strings.SplitN(tfs, ".", 2)
				if len(tf) != 2 {
					return errf("frozen[props] T.field ...")
				}
				sf.Frozen = append(sf.Frozen, [3]string{tf[0], tf[1], strings.Join(tags, ",")})
			}
		case "fieldinv":
			// fieldinv[C11] countHashWriter.n v >= 0   (checked at every store to the field, and of the zero value; holds of every cell)
			if len(fields) < 3 || !strings.Contains(fields[1], ".") {
				return errf("fieldinv[props] T.field expr")
			}
			tf := strings.SplitN(fields[1], ".", 2)
			sf.FieldInvs = append(sf.FieldInvs, [5]string{tf[0], tf[1], strings.TrimSpace(rest[len(fields[1]):]), strings.Join(tags, ","), l.at})
		case "globalinv":
			sf.GlobalInvs = append(sf.GlobalInvs, [2]string{rest, l.at})
		case "typeinv":
			if len(fields) < 3 {
				return errf("typeinv T expr")
			}
			sf.TypeInvs = append(sf.TypeInvs, [4]string{fields[1], strings.TrimSpace(rest[len(fields[1]):]), l.at, strings.Join(tags, ",")})
		case "ghostvar":
			if len(fields) != 3 {
				return errf("ghostvar name type")
			}
			sf.GhostVars = append(sf.GhostVars, [2]string{fields[1], fields[2]})
		case "const":
			// const[C10] Version == 2
			sf.Consts = append(sf.Consts, [3]string{rest, strings.Join(tags, ","), l.at})
		default:
			if cur == nil {
				return errf("clause %q outside a func block", kw)
			}
			switch kw {
			case "lemma":
				e, err := ParseSpecExpr(rest)
				if err != nil {
					return errf("%v", err)
				}
				cur.Lemmas = append(cur.Lemmas, &Clause{Kind: "lemma", Props: tags, Src: rest, Expr: e, Line: l.at})
			case "requires", "ensures", "assume":
				name := ""
				if strings.HasPrefix(rest, "@") {
					sp := strings.IndexByte(rest, ' ')
					name = rest[1:sp]
					rest = strings.TrimSpace(rest[sp:])
				}
				e, err := ParseSpecExpr(rest)
				if err != nil {
					return errf("%v", err)
				}
				cl := &Clause{Kind: kw, Props: tags, Src: rest, Expr: e, Line: l.at, Name: name}
				switch kw {
				case "requires":
					cur.Requires = append(cur.Requires, cl)
				case "ensures":
					cur.Ensures = append(cur.Ensures, cl)
				case "assume":
					cur.Assumes = append(cur.Assumes, cl)
				}
			case "modifies":
				cur.HasMod = true
				for _, m := range splitTop(rest, ',') {
					m = strings.TrimSpace(m)
					if m != "" && m != "nothing" {
						cur.Modifies = append(cur.Modifies, m)
					}
				}
			case "ghostset":
				eq := strings.Index(rest, "=")
				if eq < 0 {
					return errf("ghostset loc = expr")
				}
				cur.GhostSets = append(cur.GhostSets, [2]string{strings.TrimSpace(rest[:eq]), strings.TrimSpace(rest[eq+1:])})
			case "leaf":
				sub, ltags := parseTags(fields[1])
				body := strings.TrimSpace(rest[strings.Index(rest, fields[1])+len(fields[1]):])
				switch sub {
				case "ensures":
					e, err := ParseSpecExpr(body)
					if err != nil {
						return errf("%v", err)
					}
					cur.LeafEnsures = append(cur.LeafEnsures, &Clause{Kind: "ensures", Props: ltags, Src: body, Expr: e, Line: l.at})
				case "modifies":
					for _, m := range splitTop(body, ',') {
						m = strings.TrimSpace(m)
						if m != "" {
							cur.LeafModifies = append(cur.LeafModifies, m)
						}
					}
				default:
					return errf("leaf ensures|modifies")
				}
			case "at":
				// at <anchor> lemma expr
				if len(fields) < 4 {
					return errf("at <anchor> lemma <expr>")
				}
				anchor := fields[1]
				sub, ltags := parseTags(fields[2])
				if sub != "lemma" && sub != "assume" && sub != "ghostset" {
					return errf("at <anchor> lemma|assume|ghostset ...")
				}
				body := strings.TrimSpace(rest[strings.Index(rest, fields[2])+len(fields[2]):])
				var e SExpr
				var err error
				if sub == "ghostset" {
					// at <anchor> ghostset g(x) = expr: a ghost assignment executed at that point
					if !strings.Contains(body, "=") {
						return errf("at <anchor> ghostset g(x) = <expr>")
					}
					e, err = ParseSpecExpr("true")
				} else {
					e, err = ParseSpecExpr(body)
				}
				if err != nil {
					return errf("%v", err)
				}
				if cur.At == nil {
					cur.At = map[string][]*Clause{}
				}
				cur.At[anchor] = append(cur.At[anchor], &Clause{Kind: sub, Props: ltags, Src: body, Expr: e, Line: l.at})
			case "trusted":
				cur.Trusted = true
			case "frames":
				for _, m := range splitTop(rest, ',') {
					m = strings.TrimSpace(m)
					if m != "" {
						cur.Frames = append(cur.Frames, m)
					}
				}
				cur.FramesProps = append(cur.FramesProps, tags...)
			case "constructs":
				cur.Constructs = append(cur.Constructs, strings.Fields(rest)...)
			case "pure":
				cur.Pure = true
				cur.HasMod = true
			case "mode":
				cur.Mode = rest
			case "let":
				eq := strings.Index(rest, "=")
				if eq < 0 {
					return errf("let name = expr")
				}
				cur.Lets = append(cur.Lets, [2]string{strings.TrimSpace(rest[:eq]), strings.TrimSpace(rest[eq+1:])})
			case "safety":
				// safety[C06] nil idx slice ...
				cur.Safety = append(cur.Safety, strings.Fields(rest)...)
				cur.SafetyProps = append(cur.SafetyProps, tags...)
			case "opt":
				f := strings.SplitN(rest, "=", 2)
				if len(f) == 2 {
					cur.Opts[strings.TrimSpace(f[0])] = strings.TrimSpace(f[1])
				} else {
					cur.Opts[strings.TrimSpace(rest)] = "1"
				}
			case "loop":
				// loop K invariant expr | loop K decreases expr | loop K unroll N
				if len(fields) < 4 {
					return errf("bad loop clause")
				}
				var k int
				fmt.Sscanf(fields[1], "%d", &k)
				ls := cur.Loops[k]
				if ls == nil {
					ls = &LoopSpec{}
					cur.Loops[k] = ls
				}
				sub, ltags := parseTags(fields[2])
				body := strings.TrimSpace(rest[strings.Index(rest, fields[2])+len(fields[2]):])
				switch sub {
				case "invariant":
					name := ""
					if strings.HasPrefix(body, "@") {
						sp := strings.IndexByte(body, ' ')
						name = body[1:sp]
						body = strings.TrimSpace(body[sp:])
					}
					e, err := ParseSpecExpr(body)
					if err != nil {
						return errf("%v", err)
					}
					ls.Invariants = append(ls.Invariants, &Clause{Kind: "invariant", Props: ltags, Src: body, Expr: e, Line: l.at, Name: name})
				case "decreases":
					e, err := ParseSpecExpr(body)
					if err != nil {
						return errf("%v", err)
					}
					ls.Decreases = e
				case "unroll":
					fmt.Sscanf(body, "%d", &ls.Unroll)
				default:
					return errf("unknown loop clause %q", sub)
				}
			case "param":
				// param metaEncode ensures ...   (contract of a function-valued parameter)
				if len(fields) < 4 {
					return errf("bad param clause")
				}
				pn := fields[1]
				if cur.ParamSpec == nil {
					cur.ParamSpec = map[string]*Contract{}
				}
				pc := cur.ParamSpec[pn]
				if pc == nil {
					pc = &Contract{Func: cur.Func + "/param:" + pn, Loops: map[int]*LoopSpec{}}
					cur.ParamSpec[pn] = pc
				}
				sub, ptags := parseTags(fields[2])
				body := strings.TrimSpace(rest[strings.Index(rest, fields[2])+len(fields[2]):])
				switch sub {
				case "modifies":
					pc.HasMod = true
					for _, m := range splitTop(body, ',') {
						m = strings.TrimSpace(m)
						if m != "" && m != "nothing" {
							pc.Modifies = append(pc.Modifies, m)
						}
					}
				case "requires", "ensures":
					e, err := ParseSpecExpr(body)
					if err != nil {
						return errf("%v", err)
					}
					cl := &Clause{Kind: sub, Props: ptags, Src: body, Expr: e, Line: l.at}
					if sub == "requires" {
						pc.Requires = append(pc.Requires, cl)
					} else {
						pc.Ensures = append(pc.Ensures, cl)
					}
				default:
					return errf("unknown param clause %q", sub)
				}
			default:
				return errf("unknown clause keyword %q", kw)
			}
		}
	}
	return nil
}

func matchParen(s string, open int) int {
	if open < 0 || open >= len(s) {
		return -1
	}
	depth := 0
	for i := open; i < len(s); i++ {
		switch s[i] {
		case '(':
			depth++
		case ')':
			depth--
			if depth == 0 {
				return i
			}
		}
	}
	return -1
}

func splitTop(s string, sep byte) []string {
	var out []string
	depth := 0
	last := 0
	for i := 0; i < len(s); i++ {
		switch s[i] {
		case '(', '[':
			depth++
		case ')', ']':
			depth--
		default:
			if s[i] == sep && depth == 0 {
				out = append(out, s[last:i])
				last = i + 1
			}
		}
	}
	out = append(out, s[last:])
	return out
}
