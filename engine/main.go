package main

import (
	"fmt"
	"os"
	"path/filepath"
	"sort"
	"strings"
	"sync"
)

var (
	repoDir    = envOr("ICE_REPO", "/repo")
	verifDir   = envOr("ICE_VERIF", "/verif")
	preludeDir = filepath.Join(verifDir, "prelude")
)

func envOr(k, d string) string {
	if v := os.Getenv(k); v != "" {
		return v
	}
	return d
}

// Script renders the SMT query of one obligation.
func (w *World) Script(vc *FnVC, o *Obligation, specFns string) string {
	return w.ScriptForm(vc, o, specFns, false)
}

// ScriptForm: skolemized=true turns the goal's leading implications into hypotheses and
// skolemises its leading universal quantifiers by hand; the two forms are logically the same
// but trigger-based instantiation succeeds on different ones, so both are tried.
func (w *World) ScriptForm(vc *FnVC, o *Obligation, specFns string, skolemized bool) string {
	var b strings.Builder
	b.WriteString(w.Preamble())
	for _, h := range w.heapOrder {
		b.WriteString(fmt.Sprintf("(declare-const %s@0 %s)\n", h, w.heapSort[h]))
	}
	b.WriteString(specFns)
	b.WriteString("; ---- function " + vc.Name + ", obligation " + o.Name + "\n")
	for _, l := range vc.Lines[:o.NLines] {
		if i := strings.LastIndex(l, " ;ob["); i >= 0 && w.RunningProp != "" {
			tags := strings.Split(strings.TrimSuffix(l[i+5:], "]"), ",")
			if !hasProp(tags, w.RunningProp) {
				continue
			}
		}
		b.WriteString(l + "\n")
	}
	b.WriteString("; ---- goal: " + o.Desc + "\n")
	if skolemized {
		decls, asserts := NegateGoal(Implies(o.Guard, o.Goal).S)
		for _, d := range decls {
			b.WriteString(d + "\n")
		}
		for _, a := range asserts {
			b.WriteString("(assert " + a + ")\n")
		}
	} else {
		b.WriteString(fmt.Sprintf("(assert (not %s))\n", Implies(o.Guard, o.Goal).S))
	}
	b.WriteString("(check-sat)\n")
	if len(vc.ParamConsts) > 0 {
		b.WriteString("(get-value (" + strings.Join(vc.ParamConsts, " ") + "))\n")
	}
	return b.String()
}

// RelaxedScript drops every quantified assertion: a weaker set of hypotheses. "unsat"
// is still a proof; "sat" yields a candidate counterexample for diagnosis and replay.
func RelaxedScript(script string) string {
	var b strings.Builder
	for _, l := range strings.Split(script, "\n") {
		if strings.HasPrefix(l, "(assert") && !strings.HasPrefix(l, "(assert (not ") &&
			(strings.Contains(l, "(forall ") || strings.Contains(l, "(exists ") || strings.Contains(l, "(seqeq ")) {
			continue
		}
		b.WriteString(l + "\n")
	}
	return b.String()
}

// SolveObligation: full query, then (if undecided) the relaxed query for a candidate model.
func SolveObligation(w *World, vc *FnVC, o *Obligation, dir, specFns string, timeout int, all bool) {
	script := w.Script(vc, o, specFns)
	o.Result = Solve(dir, sanitize(o.Name), script, timeout, all)
	if o.Result.Status == "unsat" || o.Result.Status == "sat" {
		return
	}
	if sk := w.ScriptForm(vc, o, specFns, true); sk != script {
		r2 := Solve(dir, sanitize(o.Name)+"_sk", sk, timeout, all)
		if r2.Status == "unsat" || r2.Status == "sat" {
			r2.Secs += o.Result.Secs
			o.Result = r2
			return
		}
	}
	r := Solve(dir, sanitize(o.Name)+"_relaxed", RelaxedScript(script), 5, false)
	switch r.Status {
	case "unsat":
		r.Secs += o.Result.Secs
		o.Result = r
	case "sat":
		o.Result.Output += "\n[candidate counterexample from the quantifier-free relaxation, " + r.Solver + "]\n" + firstLines(r.Output, 40)
		o.Result.Candidate = true
	}
}

func solveAll(w *World, vc *FnVC, obls []*Obligation, dir string, timeout int, all bool) {
	specFns, err := w.RenderSpecFns()
	if err != nil {
		fmt.Fprintln(os.Stderr, "spec functions:", err)
		os.Exit(2)
	}
	var wg sync.WaitGroup
	sem := make(chan struct{}, 14)
	for _, o := range obls {
		wg.Add(1)
		go func(o *Obligation) {
			defer wg.Done()
			sem <- struct{}{}
			defer func() { <-sem }()
			SolveObligation(w, vc, o, dir, specFns, timeout, all)
		}(o)
	}
	wg.Wait()
}

func main() {
	if len(os.Args) < 2 {
		fmt.Fprintln(os.Stderr, "usage: icevc vc <func>... | check <prop> [quick|thorough] | list")
		os.Exit(2)
	}
	switch os.Args[1] {
	case "vc":
		w, err := LoadWorld(repoDir, preludeDir)
		if err != nil {
			fmt.Fprintln(os.Stderr, err)
			os.Exit(2)
		}
		for _, e := range w.Errors {
			fmt.Println("spec error:", e)
		}
		dir, _ := os.MkdirTemp("", "icevc-")
		keep := os.Getenv("ICEVC_KEEP") != ""
		if !keep {
			defer os.RemoveAll(dir)
		} else {
			fmt.Println("queries in", dir)
		}
		fargs := os.Args[2:]
		onlyProp := ""
		if len(fargs) > 1 && fargs[0] == "-p" {
			onlyProp = fargs[1]
			fargs = fargs[2:]
			props := map[string]*PropConfig{}
			if err := loadJSON(filepath.Join(verifDir, "props.json"), &props); err == nil && props[onlyProp] != nil {
				w.RunningProp = onlyProp
				NeutralizeUnbacked(w, props, onlyProp)
				ApplySchemas(w, props[onlyProp].Schemas, onlyProp)
			}
		}
		for _, name := range fargs {
			fn := w.Fns[name]
			if fn == nil {
				fmt.Println("no such function:", name)
				continue
			}
			vc := TranslateFn(w, fn)
			fmt.Printf("== %s: %d lines, %d obligations\n", name, len(vc.Lines), len(vc.Obls))
			for _, u := range vc.Unsupported {
				fmt.Println("   UNSUPPORTED:", u)
			}
			obls := vc.Obls
			if onlyProp != "" {
				obls = nil
				for _, o := range vc.Obls {
					if hasProp(o.Props, onlyProp) {
						obls = append(obls, o)
					}
				}
			}
			solveAll(w, vc, obls, dir, 10, false)
			for _, o := range obls {
				fmt.Printf("   %-8s %-60s %s (%s %.2fs) %s\n", o.Result.Status, o.Name, o.Pos, o.Result.Solver, o.Result.Secs, o.Desc)
				if o.Result.Status == "sat" {
					fmt.Println("      model:", strings.ReplaceAll(strings.TrimSpace(strings.SplitN(o.Result.Output, "\n", 2)[1]), "\n", " "))
				}
				if o.Result.Status == "error" {
					fmt.Println("      ", firstLines(o.Result.Output, 6))
				}
			}
			if os.Getenv("ICEVC_VAC") != "" {
				specFns, _ := w.RenderSpecFns()
				lo, hi := 0, len(vc.Lines)
				reach := Solve(dir, "vac_reach", w.vacuityScript(vc, hi, Or(vc.ReachRet...), specFns), 5, false)
				fmt.Println("   vacuity: some return reachable:", reach.Status, reach.All)
				full := Solve(dir, "vac_full", w.vacuityScript(vc, hi, True, specFns), 5, false).Status
				fmt.Println("   vacuity: all lines:", full)
				if full == "unsat" {
					for lo < hi {
						mid := (lo + hi) / 2
						if Solve(dir, "vac_mid", w.vacuityScript(vc, mid, True, specFns), 5, false).Status == "unsat" {
							hi = mid
						} else {
							lo = mid + 1
						}
					}
					fmt.Println("   first inconsistent prefix ends at line", lo, ":")
					for i := maxInt(0, lo-6); i < lo && i < len(vc.Lines); i++ {
						fmt.Println("      ", clip(vc.Lines[i], 400))
					}
				}
			}
			for _, e := range w.Errors {
				fmt.Println("   SPEC ERROR:", e)
			}
			w.Errors = nil
			for _, a := range vc.Assumed {
				fmt.Println("   assumed:", a)
			}
			for _, a := range vc.Externals {
				fmt.Println("   unmodelled external:", a)
			}
		}
	case "list":
		w, err := LoadWorld(repoDir, preludeDir)
		if err != nil {
			fmt.Fprintln(os.Stderr, err)
			os.Exit(2)
		}
		var names []string
		for n := range w.Fns {
			names = append(names, n)
		}
		sort.Strings(names)
		for _, n := range names {
			fmt.Println(n, w.ModsetOf(w.Fns[n]))
		}
	default:
		if c, ok := extraCmds[os.Args[1]]; ok {
			os.Exit(c(os.Args[2:]))
		}
		os.Exit(runDriver(os.Args[1:]))
	}
}

func init() { extraCmds["externals"] = cmdExternals }

var extraCmds = map[string]func(args []string) int{}
