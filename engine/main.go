package main

import (
	"fmt"
	"os"
	"path/filepath"
	"sort"
	"strings"
	"sync"
)

var (
	repoDir    = envOr("ICE_REPO", "/repo")
	verifDir   = envOr("ICE_VERIF", "/verif")
	preludeDir = filepath.Join(verifDir, "prelude")
)

func envOr(k, d string) string {
	if v := os.Getenv(k); v != "" {
		return v
	}
	return d
}

// Script renders the SMT query of one obligation.
func (w *World) Script(vc *FnVC, o *Obligation, specFns string) string {
	var b strings.Builder
	b.WriteString(w.Preamble())
	for _, h := range w.heapOrder {
		b.WriteString(fmt.Sprintf("(declare-const %s@0 %s)\n", h, w.heapSort[h]))
	}
	b.WriteString(specFns)
	b.WriteString("; ---- function " + vc.Name + ", obligation " + o.Name + "\n")
	for _, l := range vc.Lines[:o.NLines] {
		b.WriteString(l + "\n")
	}
	b.WriteString("; ---- goal: " + o.Desc + "\n")
	b.WriteString(fmt.Sprintf("(assert (not %s))\n", Implies(o.Guard, o.Goal).S))
	b.WriteString("(check-sat)\n")
	if len(vc.ParamConsts) > 0 {
		b.WriteString("(get-value (" + strings.Join(vc.ParamConsts, " ") + "))\n")
	}
	return b.String()
}

func solveAll(w *World, vc *FnVC, obls []*Obligation, dir string, timeout int, all bool) {
	specFns, err := w.RenderSpecFns()
	if err != nil {
		fmt.Fprintln(os.Stderr, "spec functions:", err)
		os.Exit(2)
	}
	var wg sync.WaitGroup
	sem := make(chan struct{}, 14)
	for _, o := range obls {
		wg.Add(1)
		go func(o *Obligation) {
			defer wg.Done()
			sem <- struct{}{}
			defer func() { <-sem }()
			o.Result = Solve(dir, sanitize(o.Name), w.Script(vc, o, specFns), timeout, all)
		}(o)
	}
	wg.Wait()
}

func main() {
	if len(os.Args) < 2 {
		fmt.Fprintln(os.Stderr, "usage: icevc vc <func>... | check <prop> [quick|thorough] | list")
		os.Exit(2)
	}
	switch os.Args[1] {
	case "vc":
		w, err := LoadWorld(repoDir, preludeDir)
		if err != nil {
			fmt.Fprintln(os.Stderr, err)
			os.Exit(2)
		}
		for _, e := range w.Errors {
			fmt.Println("spec error:", e)
		}
		dir, _ := os.MkdirTemp("", "icevc-")
		keep := os.Getenv("ICEVC_KEEP") != ""
		if !keep {
			defer os.RemoveAll(dir)
		} else {
			fmt.Println("queries in", dir)
		}
		for _, name := range os.Args[2:] {
			fn := w.Fns[name]
			if fn == nil {
				fmt.Println("no such function:", name)
				continue
			}
			vc := TranslateFn(w, fn)
			fmt.Printf("== %s: %d lines, %d obligations\n", name, len(vc.Lines), len(vc.Obls))
			for _, u := range vc.Unsupported {
				fmt.Println("   UNSUPPORTED:", u)
			}
			solveAll(w, vc, vc.Obls, dir, 10, false)
			for _, o := range vc.Obls {
				fmt.Printf("   %-8s %-60s %s (%s %.2fs) %s\n", o.Result.Status, o.Name, o.Pos, o.Result.Solver, o.Result.Secs, o.Desc)
				if o.Result.Status == "sat" {
					fmt.Println("      model:", strings.ReplaceAll(strings.TrimSpace(strings.SplitN(o.Result.Output, "\n", 2)[1]), "\n", " "))
				}
				if o.Result.Status == "error" {
					fmt.Println("      ", firstLines(o.Result.Output, 6))
				}
			}
			for _, e := range w.Errors {
				fmt.Println("   SPEC ERROR:", e)
			}
			w.Errors = nil
			for _, a := range vc.Assumed {
				fmt.Println("   assumed:", a)
			}
			for _, a := range vc.Externals {
				fmt.Println("   unmodelled external:", a)
			}
		}
	case "list":
		w, err := LoadWorld(repoDir, preludeDir)
		if err != nil {
			fmt.Fprintln(os.Stderr, err)
			os.Exit(2)
		}
		var names []string
		for n := range w.Fns {
			names = append(names, n)
		}
		sort.Strings(names)
		for _, n := range names {
			fmt.Println(n, w.ModsetOf(w.Fns[n]))
		}
	default:
		if c, ok := extraCmds[os.Args[1]]; ok {
			os.Exit(c(os.Args[2:]))
		}
		os.Exit(runDriver(os.Args[1:]))
	}
}

func init() { extraCmds["externals"] = cmdExternals }

var extraCmds = map[string]func(args []string) int{}
