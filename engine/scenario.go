package main

import (
	"bytes"
	"context"
	"encoding/json"
	"os"
	"os/exec"
	"path/filepath"
	"strings"
	"time"
)

type scenarioEntry struct {
	Prefix string `json:"obligation_prefix"`
	File   string `json:"file"` // relative to /verif/replay/scenarios
	Test   string `json:"test"`
}

func scenarios() []scenarioEntry {
	var s []scenarioEntry
	_ = loadJSON(filepath.Join(verifDir, "replay", "scenarios.json"), &s)
	return s
}

func scenarioFor(obl string) string {
	best := ""
	for _, s := range scenarios() {
		if strings.HasPrefix(obl, s.Prefix) && len(s.Prefix) > len(best) {
			best = s.Prefix
		}
	}
	return best
}

// runScenario runs the scenario test against /repo's working tree through a
// go test overlay (nothing is written into /repo). failed=true means the test
// failed, i.e. the real code exhibits the violation.
func runScenario(prefix string) (out string, failed bool) {
	var sc *scenarioEntry
	for _, s := range scenarios() {
		if s.Prefix == prefix {
			s := s
			sc = &s
		}
	}
	if sc == nil {
		return "no scenario", false
	}
	tmp, err := os.MkdirTemp("", "icevc-replay-")
	if err != nil {
		return err.Error(), false
	}
	defer os.RemoveAll(tmp)
	src := filepath.Join(verifDir, "replay", "scenarios", sc.File)
	ov := map[string]map[string]string{"Replace": {filepath.Join(repoDir, "zz_icevc_replay_test.go"): src}}
	b, _ := json.Marshal(ov)
	ovf := filepath.Join(tmp, "ov.json")
	os.WriteFile(ovf, b, 0o644)
	ctx, cancel := context.WithTimeout(context.Background(), 180*time.Second)
	defer cancel()
	cmd := exec.CommandContext(ctx, "go", "test", "-overlay", ovf, "-vet=off", "-count=1", "-timeout", "120s", "-run", "^"+sc.Test+"$", ".")
	cmd.Dir = repoDir
	cmd.Env = append(os.Environ(), "GOFLAGS=-mod=mod", "GOPROXY=off", "GOSUMDB=off", "GOTOOLCHAIN=local")
	var buf bytes.Buffer
	cmd.Stdout, cmd.Stderr = &buf, &buf
	err = cmd.Run()
	o := buf.String()
	if len(o) > 4000 {
		o = o[:4000] + "\n…"
	}
	return "$ go test -overlay … -run ^" + sc.Test + "$ .\n" + o, err != nil && strings.Contains(o, "FAIL")
}
