package main

import (
	"bytes"
	"context"
	"fmt"
	"os"
	"os/exec"
	"path/filepath"
	"strings"
	"time"
)

// Sort is an SMT-LIB sort, written out.
type Sort string

const (
	SInt   Sort = "Int"
	SBool  Sort = "Bool"
	SSlice Sort = "Slice"
	SStr   Sort = "Str"
)

func ArrSort(k, v Sort) Sort { return Sort("(Array " + string(k) + " " + string(v) + ")") }

func (s Sort) IsArray() bool { return strings.HasPrefix(string(s), "(Array ") }

// ArrayParts splits "(Array K V)" into K and V.
func (s Sort) ArrayParts() (Sort, Sort) {
	str := string(s)
	str = strings.TrimSuffix(strings.TrimPrefix(str, "(Array "), ")")
	depth := 0
	for i, c := range str {
		switch c {
		case '(':
			depth++
		case ')':
			depth--
		case ' ':
			if depth == 0 {
				return Sort(str[:i]), Sort(str[i+1:])
			}
		}
	}
	panic("bad array sort " + string(s))
}

// Term is an SMT term with its sort.
type Term struct {
	S    string
	Sort Sort
}

func (t Term) String() string { return t.S }

func App(op string, sort Sort, args ...Term) Term {
	var b strings.Builder
	b.WriteByte('(')
	b.WriteString(op)
	for _, a := range args {
		b.WriteByte(' ')
		b.WriteString(a.S)
	}
	b.WriteByte(')')
	return Term{b.String(), sort}
}

func Sym(name string, sort Sort) Term { return Term{name, sort} }

func IntLit(n int64) Term {
	if n < 0 {
		return Term{fmt.Sprintf("(- %d)", -n), SInt}
	}
	return Term{fmt.Sprintf("%d", n), SInt}
}

func IntLitStr(dec string) Term {
	if strings.HasPrefix(dec, "-") {
		return Term{"(- " + dec[1:] + ")", SInt}
	}
	return Term{dec, SInt}
}

var (
	True  = Term{"true", SBool}
	False = Term{"false", SBool}
)

func BoolLit(b bool) Term {
	if b {
		return True
	}
	return False
}

func Not(a Term) Term {
	switch a.S {
	case "true":
		return False
	case "false":
		return True
	}
	return App("not", SBool, a)
}

func And(as ...Term) Term {
	var xs []Term
	for _, a := range as {
		if a.S == "true" {
			continue
		}
		if a.S == "false" {
			return False
		}
		xs = append(xs, a)
	}
	switch len(xs) {
	case 0:
		return True
	case 1:
		return xs[0]
	}
	return App("and", SBool, xs...)
}

func Or(as ...Term) Term {
	var xs []Term
	for _, a := range as {
		if a.S == "false" {
			continue
		}
		if a.S == "true" {
			return True
		}
		xs = append(xs, a)
	}
	switch len(xs) {
	case 0:
		return False
	case 1:
		return xs[0]
	}
	return App("or", SBool, xs...)
}

func Implies(a, b Term) Term {
	if a.S == "true" {
		return b
	}
	if a.S == "false" || b.S == "true" {
		return True
	}
	return App("=>", SBool, a, b)
}

func Eq(a, b Term) Term {
	if a.S == b.S {
		return True
	}
	return App("=", SBool, a, b)
}
func Ne(a, b Term) Term        { return Not(Eq(a, b)) }
func Ite(c, a, b Term) Term    { return App("ite", a.Sort, c, a, b) }
func Add(a, b Term) Term       { return App("+", SInt, a, b) }
func Sub(a, b Term) Term       { return App("-", SInt, a, b) }
func Mul(a, b Term) Term       { return App(mulOp(a, b), SInt, a, b) }

// mulOp: a product of two non-literal terms is kept out of the arithmetic theory (an
// uninterpreted "imul" with a few true axioms): nonlinear terms make the solvers time out,
// and nothing here needs more about such a product than the axioms state.
func mulOp(a, b Term) string {
	lit := func(t Term) bool {
		s := strings.TrimSpace(t.S)
		s = strings.TrimPrefix(strings.TrimSuffix(strings.TrimPrefix(s, "(- "), ")"), "-")
		if s == "" {
			return false
		}
		for _, c := range s {
			if c < '0' || c > '9' {
				return false
			}
		}
		return true
	}
	if lit(a) || lit(b) {
		return "*"
	}
	return "imul"
}
func Le(a, b Term) Term        { return App("<=", SBool, a, b) }
func Lt(a, b Term) Term        { return App("<", SBool, a, b) }
func Ge(a, b Term) Term        { return App(">=", SBool, a, b) }
func Gt(a, b Term) Term        { return App(">", SBool, a, b) }
func Select(a, i Term) Term    { _, v := a.Sort.ArrayParts(); return App("select", v, a, i) }
func Store(a, i, v Term) Term  { return App("store", a.Sort, a, i, v) }
func SlArr(s Term) Term        { return App("sl.arr", SInt, s) }
func SlOff(s Term) Term        { return App("sl.off", SInt, s) }
func SlLen(s Term) Term        { return App("sl.len", SInt, s) }
func SlCap(s Term) Term        { return App("sl.cap", SInt, s) }
func MkSlice(a, o, l, c Term) Term { return App("mk.slice", SSlice, a, o, l, c) }

var NilSlice = MkSlice(IntLit(0), IntLit(0), IntLit(0), IntLit(0))

// ---------------------------------------------------------------------------
// Solver portfolio

type SolverResult struct {
	Status string // unsat | sat | unknown | timeout | error
	Solver string
	Secs   float64
	Output string
	All    map[string]string // solver -> status, every back end that answered
	Candidate bool // a model of the quantifier-free relaxation is attached
}

type solverSpec struct {
	name string
	argv func(file string, timeoutS int) []string
}

var solvers = []solverSpec{
	{"z3-4.8.12", func(f string, t int) []string { return []string{"/usr/bin/z3", fmt.Sprintf("-T:%d", t), f} }},
	{"z3-new-5.1.0", func(f string, t int) []string { return []string{"z3-new", fmt.Sprintf("-T:%d", t), f} }},
	{"cvc5-1.0.3", func(f string, t int) []string {
		return []string{"cvc5", "--enum-inst", fmt.Sprintf("--tlimit=%d", t*1000), f}
	}},
}

func runOne(sp solverSpec, file string, timeoutS int, extra ...string) (status, out string, secs float64) {
	ctx, cancel := context.WithTimeout(context.Background(), time.Duration(timeoutS+2)*time.Second)
	defer cancel()
	argv := sp.argv(file, timeoutS)
	if len(extra) > 0 {
		argv = append(append([]string{argv[0]}, extra...), argv[1:]...)
	}
	cmd := exec.CommandContext(ctx, argv[0], argv[1:]...)
	var buf bytes.Buffer
	cmd.Stdout = &buf
	cmd.Stderr = &buf
	t0 := time.Now()
	_ = cmd.Run()
	secs = time.Since(t0).Seconds()
	out = buf.String()
	first := strings.TrimSpace(strings.SplitN(out, "\n", 2)[0])
	switch first {
	case "unsat", "sat", "unknown":
		status = first
	case "timeout":
		status = "timeout"
	default:
		if ctx.Err() != nil || strings.Contains(out, "timeout") || strings.Contains(out, "interrupted") {
			status = "timeout"
		} else {
			status = "error"
		}
	}
	return
}

// Solve runs the portfolio on one query: z3 4.8.12, then z3 5.1.0, then cvc5. all=true runs every back end (thorough tier).
func Solve(dir, name, script string, timeoutS int, all bool) SolverResult {
	return SolveWith(solvers, dir, name, script, timeoutS, all)
}

// SolveVac: cheap satisfiability probe for vacuity checks (both z3 versions, no cvc5).
func SolveVac(dir, name, script string, timeoutS int) SolverResult {
	return SolveWith(solvers[:2], dir, name, script, timeoutS, false)
}

const secondOpinionS = 15

func SolveWith(solvers []solverSpec, dir, name, script string, timeoutS int, all bool) SolverResult {
	file := filepath.Join(dir, name+".smt2")
	if err := os.WriteFile(file, []byte(script), 0o644); err != nil {
		return SolverResult{Status: "error", Output: err.Error()}
	}
	res := SolverResult{Status: "unknown", All: map[string]string{}}
	type ans struct {
		sp        solverSpec
		st, out   string
		secs      float64
	}
	var outs []string
	total := 0.0
	decided := false
	record := func(a ans) {
		total += a.secs
		res.All[a.sp.name] = a.st
		outs = append(outs, "["+a.sp.name+"] "+firstLines(a.out, 40))
		if a.st == "unsat" || a.st == "sat" {
			if !decided {
				res.Status, res.Solver, res.Output = a.st, a.sp.name, a.out
				decided = true
			} else if res.Status != a.st {
				res.Status = "error"
				res.Output = "solver disagreement: " + strings.Join(outs, "\n")
			}
		}
	}
	// the two z3 versions race (each is quick where it succeeds and slow to give up where it does not);
	// cvc5 is consulted only if neither decides, or always in the thorough tier
	first := solvers
	var rest []solverSpec
	if len(solvers) > 2 {
		first, rest = solvers[:2], solvers[2:]
	}
	ch := make(chan ans, len(first))
	ctx, cancel := context.WithCancel(context.Background())
	for _, sp := range first {
		go func(sp solverSpec) {
			st, out, secs := runOneCtx(ctx, sp, file, timeoutS)
			ch <- ans{sp, st, out, secs}
		}(sp)
	}
	for range first {
		a := <-ch
		if a.st == "cancelled" {
			continue
		}
		record(a)
		if decided && !all {
			cancel()
		} else if decided && all {
			// thorough tier: the other back ends are asked for a second opinion, not for as long
			// as an undecided query would get
			time.AfterFunc(secondOpinionS*time.Second, cancel)
		}
	}
	cancel()
	if !decided || all {
		for _, sp := range rest {
			t := timeoutS
			if decided && t > secondOpinionS {
				t = secondOpinionS
			}
			st, out, secs := runOne(sp, file, t)
			record(ans{sp, st, out, secs})
			if decided && !all {
				break
			}
		}
	}
	res.Secs = total
	if !decided {
		res.Output = strings.Join(outs, "\n")
		res.Status = "error"
		for _, st := range res.All {
			if st == "unknown" {
				res.Status = "unknown"
			}
		}
		for _, st := range res.All {
			if st == "timeout" && res.Status != "unknown" {
				res.Status = "timeout"
			}
		}
	}
	return res
}

func runOneCtx(parent context.Context, sp solverSpec, file string, timeoutS int) (status, out string, secs float64) {
	ctx, cancel := context.WithTimeout(parent, time.Duration(timeoutS+2)*time.Second)
	defer cancel()
	argv := sp.argv(file, timeoutS)
	cmd := exec.CommandContext(ctx, argv[0], argv[1:]...)
	var buf bytes.Buffer
	cmd.Stdout = &buf
	cmd.Stderr = &buf
	t0 := time.Now()
	_ = cmd.Run()
	secs = time.Since(t0).Seconds()
	out = buf.String()
	if parent.Err() != nil {
		return "cancelled", out, secs
	}
	first := strings.TrimSpace(strings.SplitN(out, "\n", 2)[0])
	switch first {
	case "unsat", "sat", "unknown":
		status = first
	case "timeout":
		status = "timeout"
	default:
		if ctx.Err() != nil || strings.Contains(out, "timeout") || strings.Contains(out, "interrupted") {
			status = "timeout"
		} else {
			status = "error"
		}
	}
	return
}

func firstLines(s string, n int) string {
	lines := strings.Split(s, "\n")
	if len(lines) > n {
		lines = lines[:n]
	}
	return strings.Join(lines, "\n")
}
