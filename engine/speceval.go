package main

import (
	"fmt"
	"go/constant"
	"go/types"
	"math/big"
	"strconv"
	"strings"
)

// TV is a term with (optionally) the Go type it denotes.
type TV struct {
	T   Term
	Typ types.Type
}

// State maps heap variables to their current SMT term (version).
type State struct {
	h map[string]Term
}

func NewState() *State { return &State{h: map[string]Term{}} }

func (s *State) Clone() *State {
	n := &State{h: make(map[string]Term, len(s.h))}
	for k, v := range s.h {
		n.h[k] = v
	}
	return n
}

// Env is the evaluation context of a spec expression.
type Env struct {
	w      *World
	names  map[string]TV
	lookup func(name string) (TV, bool) // dynamic resolver (SSA names)
	st     *State
	old    *State
	heapAt func(st *State, name string) Term
	bound  map[string]Sort
	lets   map[string]SExpr
	oldLookup func(name string) (TV, bool)
	// emit receives heap well-formedness facts about references read while evaluating:
	// whatever is stored in memory refers to an object that has been allocated
	emit func(Term)
	// topFor: the allocation counter at the time a heap version was created (objects
	// referenced from that version existed then); nil means "use the state's counter"
	topFor func(heapVersion Term) (Term, bool)
	// objInv: the declared type invariant of the finished object t (in state st), if any
	objInv func(st *State, t Term, typ types.Type) Term
	wfSeen map[string]bool
	rangeIters func(n int) (it Term, heap string, ok bool)
	// absolute-index form of a bounded quantifier: bound variable absVar is represented as
	// (absK - absOff) so that absVar-indexing of the slice with offset absOff selects at absK
	absK   map[string]Term
	absOff map[string]string
	oldNames map[string]TV // names as of the pre-state (for old(x) on call-site ghost)
}

func (e *Env) heap(st *State, name string) Term {
	if t, ok := st.h[name]; ok {
		return t
	}
	s, ok := e.w.heapSort[name]
	if !ok {
		panic("unknown heap " + name)
	}
	return Sym(name+"@0", s)
}

// wf records that the reference (or slice) v read from state st denotes an allocated object.
func (e *Env) wf(st *State, v Term, typ types.Type, heapName string) {
	if e.emit == nil || typ == nil || heapName == "" {
		return
	}
	hv := e.heap(st, heapName)
	top := e.heap(st, "G$allocTop")
	if e.topFor != nil {
		if t, ok := e.topFor(hv); ok {
			top = t
		}
	}
	if e.wfSeen != nil {
		if e.wfSeen[hv.S] {
			return
		}
		e.wfSeen[hv.S] = true
	}
	// one axiom per heap version (simple select patterns): every cell holds nil or a
	// reference to an object that existed when that version of the heap came into being
	_, valSort := hv.Sort.ArrayParts()
	var body func(x string) string
	if lo, hi, ok := intRange(typ); ok {
		// integer cells hold values of their Go type
		body = func(x string) string { return fmt.Sprintf("(and (<= %s %s) (<= %s %s))", IntLitStr(lo).S, x, x, IntLitStr(hi).S) }
	}
	switch typ.Underlying().(type) {
	case *types.Basic:
		if body == nil {
			return
		}
	case *types.Pointer, *types.Map, *types.Interface, *types.Signature, *types.Chan:
		body = func(x string) string { return fmt.Sprintf("(and (>= %s 0) (<= (root %s) %s))", x, x, top.S) }
	case *types.Slice:
		body = func(x string) string {
			return fmt.Sprintf("(and (<= (root (sl.arr %s)) %s) (>= (sl.arr %s) 0) (<= 0 (sl.len %s)) (<= (sl.len %s) (sl.cap %s)) (<= 0 (sl.off %s)))", x, top.S, x, x, x, x, x)
		}
	default:
		return
	}
	// declared single-field invariants hold of every cell of the field's heap
	// (obligation at every store to the field and of the zero value)
	for _, fi := range e.w.Spec.FieldInvs {
		if heapName != "H$"+fi[0]+"$"+fi[1] || valSort.IsArray() {
			continue
		}
		ex, err := ParseSpecExpr(fi[2])
		if err != nil {
			continue
		}
		prev := body
		body = func(x string) string {
			sub := &Env{w: e.w, names: map[string]TV{"v": {Term{x, valSort}, typ}}, st: st, old: st, lets: map[string]SExpr{}}
			b, err := sub.EvalBool(ex)
			if err != nil {
				return prev(x)
			}
			return fmt.Sprintf("(and %s %s)", prev(x), b.S)
		}
	}
	if valSort.IsArray() {
		ks, _ := valSort.ArrayParts()
		x := fmt.Sprintf("(select (select %s a) i)", hv.S)
		e.emit(Term{fmt.Sprintf("(forall ((a Int) (i %s)) (! %s :pattern (%s)))", ks, body(x), x), SBool})
	} else {
		x := fmt.Sprintf("(select %s r)", hv.S)
		e.emit(Term{fmt.Sprintf("(forall ((r Int)) (! %s :pattern (%s)))", body(x), x), SBool})
	}
}

func (e *Env) withState(st *State) *Env {
	n := *e
	n.st = st
	return &n
}

type specErr struct{ msg string }

func (e *Env) fail(format string, a ...interface{}) {
	panic(specErr{fmt.Sprintf(format, a...)})
}

// EvalBool evaluates a clause to a Bool term, reporting errors.
func (e *Env) EvalBool(x SExpr) (t Term, err error) {
	defer func() {
		if r := recover(); r != nil {
			if se, ok := r.(specErr); ok {
				err = fmt.Errorf("%s", se.msg)
				return
			}
			panic(r)
		}
	}()
	tv := e.eval(x)
	if tv.T.Sort != SBool {
		return Term{}, fmt.Errorf("clause is not boolean (sort %s)", tv.T.Sort)
	}
	return tv.T, nil
}

func (e *Env) EvalAny(x SExpr) (tv TV, err error) {
	defer func() {
		if r := recover(); r != nil {
			if se, ok := r.(specErr); ok {
				err = fmt.Errorf("%s", se.msg)
				return
			}
			panic(r)
		}
	}()
	return e.eval(x), nil
}

func parseIntLit(s string) (string, bool) {
	s = strings.ReplaceAll(s, "_", "")
	n := new(big.Int)
	if _, ok := n.SetString(s, 0); !ok {
		return "", false
	}
	return n.String(), true
}

func deref(t types.Type) types.Type {
	if t == nil {
		return nil
	}
	if p, ok := t.Underlying().(*types.Pointer); ok {
		return p.Elem()
	}
	return t
}

func (e *Env) eval(x SExpr) TV {
	switch x := x.(type) {
	case SNum:
		d, ok := parseIntLit(x.Dec)
		if !ok {
			e.fail("bad number %s", x.Dec)
		}
		return TV{IntLitStr(d), types.Typ[types.UntypedInt]}
	case SBoolL:
		return TV{BoolLit(x.V), types.Typ[types.Bool]}
	case SStrL:
		return TV{e.w.StrLit(x.V), types.Typ[types.String]}
	case SIdent:
		return e.ident(x.Name)
	case SUnary:
		v := e.eval(x.X)
		switch x.Op {
		case "!":
			return TV{Not(v.T), v.Typ}
		case "-":
			return TV{App("-", SInt, v.T), v.Typ}
		}
	case SBinary:
		return e.binary(x)
	case SSel:
		return e.sel(x)
	case SIndex:
		return e.index(x)
	case SCall:
		return e.call(x)
	}
	e.fail("cannot evaluate %v", x)
	return TV{}
}

func (e *Env) ident(name string) TV {
	if k, ok := e.absK[name]; ok {
		return TV{Sub(k, Term{e.absOff[name], SInt}), nil}
	}
	if s, ok := e.bound[name]; ok {
		if s == SStr {
			return TV{Sym(name, s), types.Typ[types.String]}
		}
		return TV{Sym(name, s), nil}
	}
	if l, ok := e.lets[name]; ok {
		return e.eval(l)
	}
	if e.lookup != nil {
		if tv, ok := e.lookup(name); ok {
			return tv
		}
	}
	if tv, ok := e.names[name]; ok {
		return tv
	}
	if name == "nil" {
		return TV{IntLit(0), types.Typ[types.UntypedNil]}
	}
	if name == "allocTop" {
		return TV{e.heap(e.st, "G$allocTop"), nil}
	}
	if s, ok := e.w.ghostVar[name]; ok {
		_ = s
		return TV{e.heap(e.st, "G$"+name), nil}
	}
	// package-level constant or variable of package ice
	if obj := e.w.TPkg.Scope().Lookup(name); obj != nil {
		switch o := obj.(type) {
		case *types.Const:
			return TV{e.w.constTerm(o.Val(), o.Type()), o.Type()}
		case *types.Var:
			return e.globalVar(o)
		}
	}
	e.fail("unknown identifier %q", name)
	return TV{}
}

func (w *World) constTerm(v constant.Value, t types.Type) Term {
	switch v.Kind() {
	case constant.Bool:
		return BoolLit(constant.BoolVal(v))
	case constant.String:
		return w.StrLit(constant.StringVal(v))
	case constant.Int:
		return IntLitStr(v.ExactString())
	case constant.Float:
		// floats are opaque bit patterns; integral float constants keep their value
		if i := constant.ToInt(v); i.Kind() == constant.Int {
			return IntLitStr(i.ExactString())
		}
		n := "fconst$" + sanitize(v.ExactString())
		w.declFun(n, fmt.Sprintf("(declare-const %s Int)", n))
		return Sym(n, SInt)
	}
	return IntLit(0)
}

func (e *Env) globalVar(o *types.Var) TV {
	t := o.Type()
	if _, _, local := e.w.localStruct(t); local || isStructType(t) {
		return TV{e.w.GAddr(o.Name()), types.NewPointer(t)}
	}
	name := e.w.Heap("G$"+o.Name(), e.w.SortOf(t))
	return TV{e.heap(e.st, name), t}
}

func isStructType(t types.Type) bool {
	_, ok := t.Underlying().(*types.Struct)
	return ok
}

func (e *Env) arith(op string, a, b TV) TV {
	if a.T.Sort != SInt || b.T.Sort != SInt {
		e.fail("arithmetic %s on non-integers (%s, %s)", op, a.T.Sort, b.T.Sort)
	}
	typ := a.Typ
	if typ == nil || isUntyped(typ) {
		typ = b.Typ
	}
	switch op {
	case "+", "-", "*":
		if op == "*" {
			op = mulOp(a.T, b.T)
		}
		return TV{App(op, SInt, a.T, b.T), typ}
	case "/":
		return TV{App("div", SInt, a.T, b.T), typ}
	case "%":
		return TV{App("mod", SInt, a.T, b.T), typ}
	case "<<":
		if n, err := strconv.Atoi(b.T.S); err == nil && n < 64 {
			return TV{Mul(a.T, IntLitStr(new(big.Int).Lsh(big.NewInt(1), uint(n)).String())), typ}
		}
		e.fail("shift by non-constant in Int mode")
	case ">>":
		if n, err := strconv.Atoi(b.T.S); err == nil && n < 64 {
			return TV{App("div", SInt, a.T, IntLitStr(new(big.Int).Lsh(big.NewInt(1), uint(n)).String())), typ}
		}
		e.fail("shift by non-constant in Int mode")
	case "&":
		// x & (2^k-1)
		if m, ok := new(big.Int).SetString(b.T.S, 10); ok {
			m1 := new(big.Int).Add(m, big.NewInt(1))
			if m1.BitLen() > 0 && new(big.Int).And(m1, m).Sign() == 0 {
				return TV{App("mod", SInt, a.T, IntLitStr(m1.String())), typ}
			}
		}
		e.fail("& with a non-mask constant in Int mode")
	}
	e.fail("unsupported operator %s", op)
	return TV{}
}

func isUntyped(t types.Type) bool {
	b, ok := t.(*types.Basic)
	return ok && b.Info()&types.IsUntyped != 0
}

func (e *Env) binary(x SBinary) TV {
	switch x.Op {
	case "&&":
		return TV{And(e.eval(x.X).T, e.eval(x.Y).T), types.Typ[types.Bool]}
	case "||":
		return TV{Or(e.eval(x.X).T, e.eval(x.Y).T), types.Typ[types.Bool]}
	case "==>":
		return TV{Implies(e.eval(x.X).T, e.eval(x.Y).T), types.Typ[types.Bool]}
	case "<==>":
		return TV{Eq(e.eval(x.X).T, e.eval(x.Y).T), types.Typ[types.Bool]}
	}
	a, b := e.eval(x.X), e.eval(x.Y)
	switch x.Op {
	case "==", "!=":
		// slice compared with nil
		if a.T.Sort == SSlice && b.T.S == "0" {
			a, b = TV{SlArr(a.T), nil}, TV{IntLit(0), nil}
		} else if b.T.Sort == SSlice && a.T.S == "0" {
			a, b = TV{IntLit(0), nil}, TV{SlArr(b.T), nil}
		}
		if a.T.Sort != b.T.Sort {
			e.fail("comparison of different sorts %s / %s in %v", a.T.Sort, b.T.Sort, x)
		}
		if x.Op == "==" {
			return TV{Eq(a.T, b.T), types.Typ[types.Bool]}
		}
		return TV{Ne(a.T, b.T), types.Typ[types.Bool]}
	case "<", "<=", ">", ">=":
		if a.T.Sort != SInt || b.T.Sort != SInt {
			e.fail("ordering on non-integers")
		}
		return TV{App(x.Op, SBool, a.T, b.T), types.Typ[types.Bool]}
	}
	return e.arith(x.Op, a, b)
}

// fieldOf resolves x.f where x has Go type typ (pointer to struct or struct ref).
func (e *Env) fieldOf(st *State, base Term, typ types.Type, f string) TV {
	if typ == nil {
		e.fail("field %s of an untyped expression", f)
	}
	t := deref(typ)
	stt, key, local := e.w.localStruct(t)
	// ghost fields first (any named type)
	gkey := e.ghostKey(t)
	if gf, ok := e.w.ghostField[gkey]; ok {
		if s, ok := gf[f]; ok {
			h := "X$" + sanitize(gkey) + "$" + f
			_ = s
			return TV{Select(e.heap(st, h), base), nil}
		}
	}
	if stt == nil || !local {
		e.fail("type %s has no modelled field %s", t, f)
	}
	for i := 0; i < stt.NumFields(); i++ {
		fl := stt.Field(i)
		if fl.Name() != f {
			continue
		}
		if isStructType(fl.Type()) {
			// embedded struct value: derived reference
			return TV{e.w.SubRef(key, f, base), types.NewPointer(fl.Type())}
		}
		h := e.w.FieldHeap(key, f, e.w.SortOf(fl.Type()))
		v := Select(e.heap(st, h), base)
		e.wf(st, v, fl.Type(), h)
		if e.objInv != nil && e.emit != nil && len(e.bound) == 0 {
			if _, isPtr := fl.Type().Underlying().(*types.Pointer); isPtr {
				// an object reached through a field that existed when the function was entered is a
				// finished object: its type invariant holds in every state a specification observes
				if inv := e.objInv(st, v, fl.Type()); inv.S != "true" {
					e.emit(Implies(Le(App("root", SInt, v), Sym("G$allocTop@0", SInt)), inv))
				}
			}
		}
		return TV{v, fl.Type()}
	}
	e.fail("struct %s has no field %s", key, f)
	return TV{}
}

func (e *Env) ghostKey(t types.Type) string {
	if n, ok := t.(*types.Named); ok {
		if n.Obj().Pkg() == nil {
			return n.Obj().Name()
		}
		if n.Obj().Pkg() == e.w.TPkg {
			return n.Obj().Name()
		}
		return n.Obj().Pkg().Name() + "." + n.Obj().Name()
	}
	return e.w.typeKey(t)
}

func (e *Env) sel(x SSel) TV {
	b := e.eval(x.X)
	// struct *value* selection (datatype)
	if b.Typ != nil {
		if _, isPtr := b.Typ.Underlying().(*types.Pointer); !isPtr {
			if stt, key, local := e.w.localStruct(b.Typ); local && stt != nil && strings.HasPrefix(string(b.T.Sort), "S$") {
				for i := 0; i < stt.NumFields(); i++ {
					if stt.Field(i).Name() == x.Sel {
						return TV{App(key+"$"+x.Sel, e.w.SortOf(stt.Field(i).Type()), b.T), stt.Field(i).Type()}
					}
				}
				e.fail("struct %s has no field %s", key, x.Sel)
			}
		}
	}
	return e.fieldOf(e.st, b.T, b.Typ, x.Sel)
}

func (e *Env) index(x SIndex) TV {
	b := e.eval(x.X)
	i := e.eval(x.I)
	if b.T.Sort.IsArray() { // raw SMT array (ghost sequences, sets)
		return TV{Select(b.T, i.T), nil}
	}
	if b.Typ == nil {
		e.fail("index of untyped expression")
	}
	switch u := b.Typ.Underlying().(type) {
	case *types.Slice:
		abs := Add(SlOff(b.T), i.T)
		if id, ok := x.I.(SIdent); ok {
			if k, isAbs := e.absK[id.Name]; isAbs && SlOff(b.T).S == e.absOff[id.Name] {
				abs = k
			}
		}
		if isStructType(u.Elem()) {
			if _, _, local := e.w.localStruct(u.Elem()); local {
				return TV{e.w.EltRef(SlArr(b.T), abs), types.NewPointer(u.Elem())}
			}
		}
		h := e.w.ElemHeap(u.Elem())
		v := Select(Select(e.heap(e.st, h), SlArr(b.T)), abs)
		e.wf(e.st, v, u.Elem(), h)
		return TV{v, u.Elem()}
	case *types.Map:
		// Go semantics: a missing key (or a nil map) yields the zero value
		val, dom := e.w.MapHeaps(u)
		in := And(Ne(b.T, IntLit(0)), Select(Select(e.heap(e.st, dom), b.T), i.T))
		e.wf(e.st, Select(Select(e.heap(e.st, val), b.T), i.T), u.Elem(), val)
		return TV{Ite(in, Select(Select(e.heap(e.st, val), b.T), i.T), e.w.Zero(u.Elem())), u.Elem()}
	case *types.Basic:
		if u.Info()&types.IsString != 0 {
			return TV{App("gstr.at", SInt, b.T, i.T), types.Typ[types.Uint8]}
		}
	}
	e.fail("cannot index %s", b.Typ)
	return TV{}
}

func (e *Env) call(x SCall) TV {
	argc := func(n int) {
		if len(x.Args) != n {
			e.fail("%s expects %d arguments", x.Fn, n)
		}
	}
	switch x.Fn {
	case "old":
		argc(1)
		if e.old == nil {
			e.fail("old() not available here")
		}
		n := *e
		n.st = e.old
		n.lookup = e.oldLookup
		if e.oldNames != nil {
			n.names = e.oldNames
		}
		return n.eval(x.Args[0])
	case "len", "cap":
		argc(1)
		a := e.eval(x.Args[0])
		switch {
		case a.T.Sort == SSlice && x.Fn == "len":
			return TV{SlLen(a.T), types.Typ[types.Int]}
		case a.T.Sort == SSlice:
			return TV{SlCap(a.T), types.Typ[types.Int]}
		case a.T.Sort == SStr:
			return TV{App("gstr.len", SInt, a.T), types.Typ[types.Int]}
		}
		if a.Typ != nil {
			if m, ok := a.Typ.Underlying().(*types.Map); ok {
				_, dom := e.w.MapHeaps(m)
				return TV{App("mapcard$"+e.w.typeKey(m), SInt, Select(e.heap(e.st, dom), a.T)), types.Typ[types.Int]}
			}
		}
		e.fail("len/cap of %s", a.T.Sort)
	case "ite":
		argc(3)
		c, a, b := e.eval(x.Args[0]), e.eval(x.Args[1]), e.eval(x.Args[2])
		if a.T.Sort != b.T.Sort {
			e.fail("ite branches of different sorts")
		}
		return TV{Ite(c.T, a.T, b.T), a.Typ}
	case "forallstr":
		// forallstr(k, body): k ranges over strings
		argc(2)
		id, ok := x.Args[0].(SIdent)
		if !ok {
			e.fail("bound variable must be an identifier")
		}
		n := *e
		n.bound = map[string]Sort{}
		for k, v := range e.bound {
			n.bound[k] = v
		}
		n.bound[id.Name] = SStr
		b := n.eval(x.Args[1])
		return TV{Term{fmt.Sprintf("(forall ((%s Str)) %s)", id.Name, b.T.S), SBool}, types.Typ[types.Bool]}
	case "pat":
		// pat(t1, ..., tn, body): body annotated with the multi-pattern (t1 ... tn)
		if len(x.Args) < 2 {
			e.fail("pat(terms..., body)")
		}
		var ts []string
		for _, a := range x.Args[:len(x.Args)-1] {
			ts = append(ts, e.eval(a).T.S)
		}
		b := e.eval(x.Args[len(x.Args)-1])
		return TV{Term{fmt.Sprintf("(! %s :pattern (%s))", b.T.S, strings.Join(ts, " ")), SBool}, types.Typ[types.Bool]}
	case "forall", "exists":
		// forall(i, lo, hi, body)  or  forall(i, body)  or  forall(i, j, body) (two unbounded variables)
		if len(x.Args) == 3 {
			id1, ok1 := x.Args[0].(SIdent)
			id2, ok2 := x.Args[1].(SIdent)
			if !ok1 || !ok2 {
				e.fail("forall(i, j, body)")
			}
			n := *e
			n.bound = map[string]Sort{}
			for k, v := range e.bound {
				n.bound[k] = v
			}
			n.bound[id1.Name], n.bound[id2.Name] = SInt, SInt
			b := n.eval(x.Args[2])
			return TV{Term{fmt.Sprintf("(%s ((%s Int) (%s Int)) %s)", x.Fn, id1.Name, id2.Name, b.T.S), SBool}, types.Typ[types.Bool]}
		}
		if len(x.Args) != 4 && len(x.Args) != 2 {
			e.fail("%s(i, lo, hi, body) or %s(i, body)", x.Fn, x.Fn)
		}
		id, ok := x.Args[0].(SIdent)
		if !ok {
			e.fail("bound variable must be an identifier")
		}
		n := *e
		n.bound = map[string]Sort{}
		for k, v := range e.bound {
			n.bound[k] = v
		}
		n.bound[id.Name] = SInt
		var rng Term = True
		body := x.Args[len(x.Args)-1]
		if len(x.Args) == 4 {
			// quantify over the absolute index of the first slice indexed by the bound variable:
			// (select arr k) is then a trigger free of arithmetic
			if sx := firstIndexedBy(body, id.Name); sx != nil && !mentions(sx, id.Name) {
				if sv, err := n.EvalAny(sx); err == nil && sv.T.Sort == SSlice {
					kname := id.Name + "$abs"
					delete(n.bound, id.Name)
					n.bound[kname] = SInt
					off := SlOff(sv.T)
					nk, no := map[string]Term{}, map[string]string{}
					for k, v := range e.absK {
						nk[k] = v
						no[k] = e.absOff[k]
					}
					nk[id.Name], no[id.Name] = Sym(kname, SInt), off.S
					n.absK, n.absOff = nk, no
					jt := Sub(Sym(kname, SInt), off)
					lo, hi := n.eval(x.Args[1]), n.eval(x.Args[2])
					rng = And(Le(lo.T, jt), Lt(jt, hi.T))
					b := n.eval(body)
					var inner Term
					if x.Fn == "forall" {
						inner = Implies(rng, b.T)
					} else {
						inner = And(rng, b.T)
					}
					return TV{Term{fmt.Sprintf("(%s ((%s Int)) %s)", x.Fn, kname, inner.S), SBool}, types.Typ[types.Bool]}
				}
			}
			lo, hi := n.eval(x.Args[1]), n.eval(x.Args[2])
			rng = And(Le(lo.T, Sym(id.Name, SInt)), Lt(Sym(id.Name, SInt), hi.T))
		}
		b := n.eval(body)
		var inner Term
		if x.Fn == "forall" {
			inner = Implies(rng, b.T)
		} else {
			inner = And(rng, b.T)
		}
		return TV{Term{fmt.Sprintf("(%s ((%s Int)) %s)", x.Fn, id.Name, inner.S), SBool}, types.Typ[types.Bool]}
	case "fresh":
		argc(1)
		a := e.eval(x.Args[0])
		if e.old == nil {
			e.fail("fresh() needs a pre-state")
		}
		r := a.T
		if r.Sort == SSlice {
			r = SlArr(r)
		}
		return TV{Gt(App("root", SInt, r), e.heap(e.old, "G$allocTop")), types.Typ[types.Bool]}
	case "arr", "off":
		argc(1)
		a := e.eval(x.Args[0])
		if a.T.Sort != SSlice {
			e.fail("%s of non-slice", x.Fn)
		}
		if x.Fn == "arr" {
			return TV{SlArr(a.T), nil}
		}
		return TV{SlOff(a.T), nil}
	case "contents":
		// contents(s): the SMT array holding the elements of slice s (absolute indices)
		argc(1)
		a := e.eval(x.Args[0])
		sl, ok := a.Typ.Underlying().(*types.Slice)
		if !ok {
			e.fail("contents of non-slice")
		}
		h := e.w.ElemHeap(sl.Elem())
		return TV{Select(e.heap(e.st, h), SlArr(a.T)), nil}
	case "dom":
		// dom(m): domain array of a map
		argc(1)
		a := e.eval(x.Args[0])
		m, ok := a.Typ.Underlying().(*types.Map)
		if !ok {
			e.fail("dom of non-map")
		}
		_, dom := e.w.MapHeaps(m)
		return TV{Select(e.heap(e.st, dom), a.T), nil}
	case "has":
		// has(m, k): k in map m
		argc(2)
		a := e.eval(x.Args[0])
		k := e.eval(x.Args[1])
		m, ok := a.Typ.Underlying().(*types.Map)
		if !ok {
			e.fail("has of non-map")
		}
		_, dom := e.w.MapHeaps(m)
		return TV{And(Ne(a.T, IntLit(0)), Select(Select(e.heap(e.st, dom), a.T), k.T)), types.Typ[types.Bool]}
	case "deref":
		// deref(p): the value a pointer to a scalar / pointer / slice cell points to
		argc(1)
		a := e.eval(x.Args[0])
		if a.Typ == nil {
			e.fail("deref of an untyped expression")
		}
		pt, ok := a.Typ.Underlying().(*types.Pointer)
		if !ok {
			e.fail("deref of a non-pointer")
		}
		if isStructType(pt.Elem()) {
			e.fail("deref of a struct pointer: select a field instead")
		}
		h := e.w.CellHeap(pt.Elem())
		v := Select(e.heap(e.st, h), a.T)
		e.wf(e.st, v, pt.Elem(), h)
		return TV{v, pt.Elem()}
	case "dyntype", "root", "ifaceval", "closurefn":
		argc(1)
		a := e.eval(x.Args[0])
		return TV{App(x.Fn, SInt, a.T), nil}
	case "global":
		// global("Name"): a package-level variable of a dependency (pointer/interface/integer valued)
		argc(1)
		s, ok := x.Args[0].(SStrL)
		if !ok {
			e.fail("global(\"Name\")")
		}
		return TV{e.heap(e.st, e.w.Heap("G$"+s.V, SInt)), nil}
	case "rangevisited":
		// rangevisited(n, k): has the n-th map range loop of this function already delivered key k?
		argc(2)
		nlit, ok := x.Args[0].(SNum)
		if !ok || e.rangeIters == nil {
			e.fail("rangevisited(n, k) with a literal n inside a function contract")
		}
		var n int
		fmt.Sscanf(nlit.Dec, "%d", &n)
		it, h, ok := e.rangeIters(n)
		if !ok {
			e.fail("no map range loop #%d (yet) at this point", n)
		}
		k := e.eval(x.Args[1])
		return TV{Select(Select(e.heap(e.st, h), it), k.T), types.Typ[types.Bool]}
	case "heap":
		// heap("H$T$f"): the current version of a heap variable as a value (for spec functions
		// that are defined over the heap, e.g. sums over a list of objects)
		argc(1)
		hs, ok := x.Args[0].(SStrL)
		if !ok {
			e.fail("heap(\"name\")")
		}
		if !e.w.ensureHeap(hs.V) {
			e.fail("unknown heap variable %s", hs.V)
		}
		return TV{e.heap(e.st, hs.V), nil}
	case "typetag":
		argc(1)
		s, ok := x.Args[0].(SStrL)
		if !ok {
			e.fail("typetag(\"T\")")
		}
		return TV{e.w.tagByName(s.V), nil}
	case "sub":
		// sub(x.f) is written as x.f for embedded structs; kept for symmetry
		argc(1)
		return e.eval(x.Args[0])
	case "int", "uint64", "uint32", "uint16", "uint8", "byte", "int64", "uint":
		argc(1)
		a := e.eval(x.Args[0])
		return TV{a.T, types.Typ[basicKind(x.Fn)]}
	case "select":
		argc(2)
		a, i := e.eval(x.Args[0]), e.eval(x.Args[1])
		return TV{Select(a.T, i.T), nil}
	case "store":
		argc(3)
		a, i, v := e.eval(x.Args[0]), e.eval(x.Args[1]), e.eval(x.Args[2])
		return TV{Store(a.T, i.T, v.T), nil}
	}
	if _, ok := e.w.ghostFn[x.Fn]; ok {
		argc(1)
		a := e.eval(x.Args[0])
		r := a.T
		if r.Sort == SSlice {
			r = SlArr(r)
		}
		return TV{Select(e.heap(e.st, "X$_$"+x.Fn), r), nil}
	}
	if x.Fn == "cast" {
		argc(2)
		a := e.eval(x.Args[0])
		s, ok := x.Args[1].(SStrL)
		if !ok {
			e.fail("cast(x, \"T\")")
		}
		tn := strings.TrimPrefix(s.V, "*")
		obj := e.w.TPkg.Scope().Lookup(tn)
		if obj == nil {
			e.fail("cast: unknown type %s", tn)
		}
		var t types.Type = obj.Type()
		if strings.HasPrefix(s.V, "*") {
			t = types.NewPointer(t)
		}
		return TV{a.T, t}
	}
	if fn, ok := e.w.specFnSig[x.Fn]; ok {
		if len(fn.Params) != len(x.Args) {
			e.fail("%s expects %d arguments", x.Fn, len(fn.Params))
		}
		var args []Term
		for i, a := range x.Args {
			v := e.eval(a)
			want := e.w.specSort(fn.Params[i][1])
			if v.T.Sort != want {
				e.fail("argument %d of %s has sort %s, want %s", i, x.Fn, v.T.Sort, want)
			}
			args = append(args, v.T)
		}
		if len(args) == 0 {
			return TV{Sym(x.Fn, e.w.specSort(fn.Ret)), nil}
		}
		return TV{App(x.Fn, e.w.specSort(fn.Ret), args...), nil}
	}
	e.fail("unknown function %s in spec", x.Fn)
	return TV{}
}

func basicKind(n string) types.BasicKind {
	switch n {
	case "int":
		return types.Int
	case "uint64":
		return types.Uint64
	case "uint32":
		return types.Uint32
	case "uint16":
		return types.Uint16
	case "uint8", "byte":
		return types.Uint8
	case "int64":
		return types.Int64
	case "uint":
		return types.Uint
	}
	return types.Int
}

func (w *World) tagByName(k string) Term {
	k = sanitize(k)
	if id, ok := w.tagOf[k]; ok {
		return IntLit(int64(id))
	}
	id := len(w.tagOf) + 1
	w.tagOf[k] = id
	w.tagNames = append(w.tagNames, k)
	return IntLit(int64(id))
}

// RenderSpecFns renders spec function definitions and user axioms.
func (w *World) RenderSpecFns() (string, error) {
	var b strings.Builder
	for _, fn := range w.Spec.SpecFns {
		var ps []string
		env := &Env{w: w, bound: map[string]Sort{}, st: NewState()}
		for _, p := range fn.Params {
			s := w.specSort(p[1])
			ps = append(ps, fmt.Sprintf("(%s %s)", p[0], s))
			env.bound[p[0]] = s
		}
		ret := w.specSort(fn.Ret)
		if fn.Body == "" {
			var ss []string
			for _, p := range fn.Params {
				ss = append(ss, string(w.specSort(p[1])))
			}
			b.WriteString(fmt.Sprintf("(declare-fun %s (%s) %s)\n", fn.Name, strings.Join(ss, " "), ret))
			continue
		}
		ex, err := ParseSpecExpr(fn.Body)
		if err != nil {
			return "", fmt.Errorf("spec %s: %v", fn.Name, err)
		}
		tv, err := env.EvalAny(ex)
		if err != nil {
			return "", fmt.Errorf("spec %s: %v", fn.Name, err)
		}
		if tv.T.Sort != ret {
			return "", fmt.Errorf("spec %s: body has sort %s, declared %s", fn.Name, tv.T.Sort, ret)
		}
		kw := "define-fun"
		if fn.Rec {
			kw = "define-fun-rec"
		}
		b.WriteString(fmt.Sprintf("(%s %s (%s) %s %s)\n", kw, fn.Name, strings.Join(ps, " "), ret, tv.T.S))
	}
	for _, ax := range w.Spec.Axioms {
		env := &Env{w: w, bound: map[string]Sort{}, st: NewState()}
		var vs []string
		for _, p := range ax.Vars {
			s := w.specSort(p[1])
			vs = append(vs, fmt.Sprintf("(%s %s)", p[0], s))
			env.bound[p[0]] = s
		}
		ex, err := ParseSpecExpr(ax.Src)
		if err != nil {
			return "", fmt.Errorf("axiom %s: %v", ax.Name, err)
		}
		t, err := env.EvalBool(ex)
		if err != nil {
			return "", fmt.Errorf("axiom %s: %v", ax.Name, err)
		}
		body := t.S
		if len(ax.Pats) > 0 {
			var pats []string
			for _, p := range ax.Pats {
				var ts []string
				for _, one := range splitTop(p, ',') {
					pe, err := ParseSpecExpr(strings.TrimSpace(one))
					if err != nil {
						return "", fmt.Errorf("axiom %s pattern: %v", ax.Name, err)
					}
					pt, err := env.EvalAny(pe)
					if err != nil {
						return "", fmt.Errorf("axiom %s pattern: %v", ax.Name, err)
					}
					ts = append(ts, pt.T.S)
				}
				pats = append(pats, ":pattern ("+strings.Join(ts, " ")+")")
			}
			body = fmt.Sprintf("(! %s %s)", body, strings.Join(pats, " "))
		}
		if len(vs) > 0 {
			b.WriteString(fmt.Sprintf("(assert (forall (%s) %s)) ; axiom %s\n", strings.Join(vs, " "), body, ax.Name))
		} else {
			b.WriteString(fmt.Sprintf("(assert %s) ; axiom %s\n", body, ax.Name))
		}
	}
	return b.String(), nil
}

// firstIndexedBy finds the first sub-expression X in "X[v]" (v a bare identifier).
func firstIndexedBy(x SExpr, v string) SExpr {
	switch x := x.(type) {
	case SIndex:
		if id, ok := x.I.(SIdent); ok && id.Name == v {
			return x.X
		}
		if r := firstIndexedBy(x.X, v); r != nil {
			return r
		}
		return firstIndexedBy(x.I, v)
	case SUnary:
		return firstIndexedBy(x.X, v)
	case SBinary:
		if r := firstIndexedBy(x.X, v); r != nil {
			return r
		}
		return firstIndexedBy(x.Y, v)
	case SSel:
		return firstIndexedBy(x.X, v)
	case SCall:
		if x.Fn == "forall" || x.Fn == "exists" || x.Fn == "forallstr" {
			// look inside nested quantifiers too, but never pick an expression that depends on their variables
			if len(x.Args) < 2 {
				return nil
			}
			inner, ok := x.Args[0].(SIdent)
			if !ok || inner.Name == v {
				return nil
			}
			for _, a := range x.Args[1:] {
				if r := firstIndexedBy(a, v); r != nil && !mentions(r, inner.Name) {
					return r
				}
			}
			return nil
		}
		for _, a := range x.Args {
			if r := firstIndexedBy(a, v); r != nil {
				return r
			}
		}
	}
	return nil
}

func mentions(x SExpr, v string) bool {
	switch x := x.(type) {
	case SIdent:
		return x.Name == v
	case SIndex:
		return mentions(x.X, v) || mentions(x.I, v)
	case SUnary:
		return mentions(x.X, v)
	case SBinary:
		return mentions(x.X, v) || mentions(x.Y, v)
	case SSel:
		return mentions(x.X, v)
	case SCall:
		for _, a := range x.Args {
			if mentions(a, v) {
				return true
			}
		}
	}
	return false
}

// ensureHeap registers a field heap "H$T$f" on demand.
func (w *World) ensureHeap(name string) bool {
	if _, ok := w.heapSort[name]; ok {
		return true
	}
	parts := strings.Split(name, "$")
	if len(parts) == 3 && parts[0] == "H" {
		if tn, ok := w.TPkg.Scope().Lookup(parts[1]).(*types.TypeName); ok {
			if st, key, local := w.localStruct(tn.Type()); st != nil && local {
				for i := 0; i < st.NumFields(); i++ {
					if st.Field(i).Name() == parts[2] && !isStructType(st.Field(i).Type()) {
						w.FieldHeap(key, parts[2], w.SortOf(st.Field(i).Type()))
						return true
					}
				}
			}
		}
	}
	return false
}
