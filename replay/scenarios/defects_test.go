package ice

// Scenario replays: API-level reproductions of the abstract counterexamples the
// verifier finds. Injected into package ice with `go test -overlay`; nothing is
// written into /repo. Each test FAILS when the real code exhibits the violation.

import (
	"bytes"
	"fmt"
	"hash/crc32"
	"os"
	"path/filepath"
	"testing"
	"time"

	"github.com/RoaringBitmap/roaring"
	segment "github.com/blugelabs/bluge_segment_api"
)

type replayTerm struct {
	f string
	t []byte
}

func (r replayTerm) Field() string { return r.f }
func (r replayTerm) Term() []byte  { return r.t }

func replayBuild(t *testing.T, docs []segment.Document, mode uint32) *Segment {
	t.Helper()
	s, _, err := newWithChunkMode(docs, encodeNorm, mode)
	if err != nil {
		t.Fatal(err)
	}
	return s.(*Segment)
}

func replayPersistLoad(t *testing.T, s *Segment) (*Segment, []byte) {
	t.Helper()
	var buf bytes.Buffer
	if _, err := s.WriteTo(&buf, nil); err != nil {
		t.Fatal(err)
	}
	b := append([]byte(nil), buf.Bytes()...)
	ls, err := load(segment.NewDataBytes(b))
	if err != nil {
		t.Fatalf("load: %v", err)
	}
	return ls, b
}

func replayMerge(t *testing.T, segs []*Segment, drops []*roaring.Bitmap) ([]byte, [][]uint64, error) {
	t.Helper()
	var ss []segment.Segment
	for _, s := range segs {
		ss = append(ss, s)
	}
	m := Merge(ss, drops, 1024)
	var buf bytes.Buffer
	_, err := m.WriteTo(&buf, nil)
	return append([]byte(nil), buf.Bytes()...), m.DocumentNumbers(), err
}

// D1 / C18: unknown field (nil dictionary) in DocsMatchingTerms
func TestReplayDocsMatchingTermsUnknownField(t *testing.T) {
	s := replayBuild(t, []segment.Document{&FakeDocument{
		NewFakeField("_id", "a", true, false, false),
		NewFakeField("name", "wow", true, true, false),
	}}, 1024)
	defer func() {
		if r := recover(); r != nil {
			t.Fatalf("DocsMatchingTerms panicked on an unknown field: %v", r)
		}
	}()
	bm, err := s.DocsMatchingTerms([]segment.Term{replayTerm{"nope", []byte("x")}, replayTerm{"name", []byte("wow")}})
	if err != nil {
		t.Fatalf("unexpected error: %v", err)
	}
	if bm.GetCardinality() != 1 || !bm.Contains(0) {
		t.Fatalf("expected {0}, got %v", bm.ToArray())
	}
}

// D2 / C03, C04: merge in which nothing survives
func TestReplayMergeNothingSurvives(t *testing.T) {
	s := replayBuild(t, []segment.Document{
		&FakeDocument{NewFakeField("_id", "a", true, false, false), NewFakeField("name", "wow", true, true, true)},
		&FakeDocument{NewFakeField("_id", "b", true, false, false), NewFakeField("name", "cool", true, true, true)},
	}, 1024)
	drops := roaring.New()
	drops.AddRange(0, 2)
	b, nums, err := replayMerge(t, []*Segment{s}, []*roaring.Bitmap{drops})
	if err != nil {
		t.Fatalf("merge: %v", err)
	}
	if len(nums) != 1 || len(nums[0]) != 2 || nums[0][0] != docDropped || nums[0][1] != docDropped {
		t.Errorf("DocumentNumbers() = %v, want one slice [dropped dropped]", nums)
	}
	func() {
		defer func() {
			if r := recover(); r != nil {
				t.Fatalf("Load of the zero-survivor merge panicked: %v", r)
			}
		}()
		ls, err := load(segment.NewDataBytes(b))
		if err != nil {
			t.Fatalf("Load of the zero-survivor merge failed: %v", err)
		}
		if ls.Count() != 0 {
			t.Fatalf("count %d", ls.Count())
		}
		if err := ls.VisitStoredFields(0, func(string, []byte) bool { return true }); err != nil {
			t.Fatal(err)
		}
	}()
}

// D3 / C11: re-persisting a loaded segment
func TestReplayRepersistLoadedSegment(t *testing.T) {
	s := replayBuild(t, []segment.Document{&FakeDocument{
		NewFakeField("_id", "a", true, false, false),
		NewFakeField("name", "wow wow cool", true, true, true),
	}}, 1024)
	ls, b1 := replayPersistLoad(t, s)
	var buf bytes.Buffer
	n, err := ls.WriteTo(&buf, nil)
	if err != nil {
		t.Fatal(err)
	}
	b2 := buf.Bytes()
	if int(n) != len(b2) {
		t.Errorf("WriteTo returned %d, wrote %d", n, len(b2))
	}
	got := uint32(b2[len(b2)-4])<<24 | uint32(b2[len(b2)-3])<<16 | uint32(b2[len(b2)-2])<<8 | uint32(b2[len(b2)-1])
	if want := crc32.ChecksumIEEE(b2[:len(b2)-4]); got != want {
		t.Errorf("footer CRC of the re-persisted file is %08x, CRC-32 of the preceding bytes is %08x", got, want)
	}
	if !bytes.Equal(b1, b2) {
		t.Errorf("re-persisting a loaded segment does not reproduce the file byte for byte")
	}
}

// D4 / C08, C13: dictionary iterator meets a 1-hit term and then a general term
func TestReplayDictCountAfterOneHitTerm(t *testing.T) {
	mk := func(id, body string) segment.Document {
		return &FakeDocument{NewFakeField("_id", id, true, false, false), NewFakeField("body", body, false, false, false)}
	}
	s1 := replayBuild(t, []segment.Document{mk("a", "aaa common"), mk("b", "common")}, 1024)
	s2 := replayBuild(t, []segment.Document{mk("c", "common")}, 1024)
	b, _, err := replayMerge(t, []*Segment{s1, s2}, []*roaring.Bitmap{nil, nil})
	if err != nil {
		t.Fatal(err)
	}
	ms, err := load(segment.NewDataBytes(b))
	if err != nil {
		t.Fatal(err)
	}
	d, err := ms.Dictionary("body")
	if err != nil {
		t.Fatal(err)
	}
	itr := d.Iterator(nil, nil, nil)
	counts := map[string]uint64{}
	for e, err := itr.Next(); e != nil; e, err = itr.Next() {
		if err != nil {
			t.Fatal(err)
		}
		counts[e.Term()] = e.Count()
	}
	if counts["aaa"] != 1 || counts["common"] != 3 {
		t.Fatalf("dictionary counts %v, want aaa:1 common:3", counts)
	}
}

// D5 / C06: short last record in a stored block, little spare capacity in the reused buffer
func TestReplayStoredShortRecordAtBlockEnd(t *testing.T) {
	var docs []segment.Document
	for i := 0; i < 256; i++ {
		docs = append(docs, &FakeDocument{NewFakeField("_id", fmt.Sprintf("d%07d", i), i == 128, false, false)})
	}
	s := replayBuild(t, docs, 1024)
	defer func() {
		if r := recover(); r != nil {
			t.Fatalf("VisitStoredFields panicked: %v", r)
		}
	}()
	for _, n := range []uint64{0, 255, 128, 127, 255} {
		var got []string
		if err := s.VisitStoredFields(n, func(f string, v []byte) bool { got = append(got, f+"="+string(v)); return true }); err != nil {
			t.Fatal(err)
		}
		if n == 128 {
			if len(got) != 1 || got[0] != "_id=d0000128" {
				t.Fatalf("doc 128: %v", got)
			}
		} else if len(got) != 0 {
			t.Fatalf("doc %d: %v", n, got)
		}
	}
}

// D6 / C19: storage failure while loading a dictionary must not leave the segment locked
func TestReplayDictionaryAfterStorageFailure(t *testing.T) {
	dir, err := os.MkdirTemp("", "icevc-replay")
	if err != nil {
		t.Fatal(err)
	}
	defer os.RemoveAll(dir)
	s := replayBuild(t, []segment.Document{&FakeDocument{
		NewFakeField("_id", "a", true, false, false),
		NewFakeField("desc", "apple ball cat", true, true, false),
	}}, 1024)
	p := filepath.Join(dir, "seg.ice")
	if err := persistToFile(s, p); err != nil {
		t.Fatal(err)
	}
	f, err := os.Open(p)
	if err != nil {
		t.Fatal(err)
	}
	data, err := segment.NewDataFile(f)
	if err != nil {
		t.Fatal(err)
	}
	ls, err := load(data)
	if err != nil {
		t.Fatal(err)
	}
	f.Close() // storage starts failing
	if _, err := ls.Dictionary("desc"); err == nil {
		t.Log("first lookup did not fail (data cached?)")
	}
	done := make(chan struct{})
	go func() {
		_, _ = ls.Dictionary("desc")
		close(done)
	}()
	select {
	case <-done:
	case <-time.After(3 * time.Second):
		t.Fatalf("second Dictionary() call after a failed storage read blocks forever (segment mutex still held)")
	}
}

// D7 / C16: SumTotalTermFrequency after a merge
func TestReplayMergedSumTotalTermFrequency(t *testing.T) {
	mk := func(id string) segment.Document {
		return &FakeDocument{NewFakeField("_id", id, true, false, false), NewFakeField("name", "wow wow cool", false, true, false)}
	}
	s1 := replayBuild(t, []segment.Document{mk("a"), mk("b")}, 1024)
	s2 := replayBuild(t, []segment.Document{mk("c")}, 1024)
	b, _, err := replayMerge(t, []*Segment{s1, s2}, []*roaring.Bitmap{nil, nil})
	if err != nil {
		t.Fatal(err)
	}
	ms, err := load(segment.NewDataBytes(b))
	if err != nil {
		t.Fatal(err)
	}
	// ground truth: sum of the frequencies of every posting of the field
	d, _ := ms.Dictionary("name")
	var want uint64
	for _, term := range []string{"wow", "cool"} {
		pl, err := d.PostingsList([]byte(term), nil, nil)
		if err != nil {
			t.Fatal(err)
		}
		it, _ := pl.Iterator(true, true, false, nil)
		for p, _ := it.Next(); p != nil; p, _ = it.Next() {
			want += uint64(p.Frequency())
		}
	}
	st, err := ms.CollectionStats("name")
	if err != nil {
		t.Fatal(err)
	}
	if st.SumTotalTermFrequency() != want {
		t.Fatalf("SumTotalTermFrequency = %d, the postings of the field hold %d term occurrences", st.SumTotalTermFrequency(), want)
	}
	if st.DocumentCount() != 3 || st.TotalDocumentCount() != 3 {
		t.Fatalf("doc counts %d/%d", st.DocumentCount(), st.TotalDocumentCount())
	}
}

// D9 / C09: a visitor that re-enters VisitStoredFields (sequential stand-in for two concurrent readers)
func TestReplayReentrantStoredFieldVisit(t *testing.T) {
	var docs []segment.Document
	for i := 0; i < 300; i++ {
		docs = append(docs, &FakeDocument{
			NewFakeField("_id", fmt.Sprintf("id-%04d", i), true, false, false),
			NewFakeField("name", fmt.Sprintf("name-%04d", i), true, false, false),
		})
	}
	s := replayBuild(t, docs, 1024)
	var got []string
	err := s.VisitStoredFields(3, func(f string, v []byte) bool {
		if f == "_id" {
			// nested read of a document that lives in another 128-document block
			_ = s.VisitStoredFields(250, func(string, []byte) bool { return true })
		}
		got = append(got, f+"="+string(v))
		return true
	})
	if err != nil {
		t.Fatal(err)
	}
	if len(got) != 2 || got[0] != "_id=id-0003" || got[1] != "name=name-0003" {
		t.Fatalf("visit of doc 3 with a re-entrant visitor delivered %v", got)
	}
}

// D10 / C05: Advance to a target beyond 32 bits
func TestReplayAdvanceBeyond32Bits(t *testing.T) {
	var docs []segment.Document
	for i := 0; i < 6; i++ {
		docs = append(docs, &FakeDocument{NewFakeField("_id", fmt.Sprintf("%d", i), true, false, false), NewFakeField("body", "common", false, true, false)})
	}
	s := replayBuild(t, docs, 1024)
	d, _ := s.Dictionary("body")
	except := roaring.New()
	except.Add(1)
	for _, ex := range []*roaring.Bitmap{nil, except} {
		for _, freq := range []bool{false, true} {
			pl, err := d.PostingsList([]byte("common"), ex, nil)
			if err != nil {
				t.Fatal(err)
			}
			it, err := pl.Iterator(freq, freq, false, nil)
			if err != nil {
				t.Fatal(err)
			}
			p, err := it.Advance(1<<32 + 2)
			if err != nil {
				t.Fatal(err)
			}
			if p != nil {
				t.Fatalf("Advance(1<<32+2) (except=%v, freq=%v) returned posting %d, which is smaller than the target", ex != nil, freq, p.Number())
			}
		}
	}
}

// D8 / C01: repeated composite field whose term already exists: the location's own field name must be kept
func TestReplayRepeatedCompositeFieldLocations(t *testing.T) {
	doc := &FakeDocument{
		NewFakeField("_id", "a", true, false, false),
		NewFakeField("name", "wow", true, true, false),
	}
	doc.FakeComposite("_all", []string{"_id"})
	doc.FakeComposite("_all", []string{"_id", "_all"}) // the field name _all occurs twice in the document
	s := replayBuild(t, []segment.Document{doc}, 1024)
	d, err := s.Dictionary("_all")
	if err != nil {
		t.Fatal(err)
	}
	pl, err := d.PostingsList([]byte("wow"), nil, nil)
	if err != nil {
		t.Fatal(err)
	}
	it, err := pl.Iterator(true, true, true, nil)
	if err != nil {
		t.Fatal(err)
	}
	p, err := it.Next()
	if err != nil || p == nil {
		t.Fatalf("no posting: %v", err)
	}
	if len(p.Locations()) != 2 {
		t.Fatalf("expected 2 locations, got %d", len(p.Locations()))
	}
	for i, l := range p.Locations() {
		if l.Field() != "name" {
			t.Errorf("location %d of the composite field reports field %q, the input location says %q", i, l.Field(), "name")
		}
	}
}

// D11: a reused postings list that held a general term and is then looked up
// through the (empty) dictionary of an unknown field has postings != nil but
// no owning segment; iterating it must yield nothing, not panic.
func TestReplayReusedListUnknownFieldIterator(t *testing.T) {
	s, _, err := newWithChunkMode([]segment.Document{
		&FakeDocument{NewFakeField("_id", "a", true, false, false), NewFakeField("name", "wow cool", true, true, false)},
		&FakeDocument{NewFakeField("_id", "b", true, false, false), NewFakeField("name", "wow", true, true, false)},
	}, encodeNorm, 1024)
	if err != nil {
		t.Fatal(err)
	}
	seg := s.(*Segment)
	d, _ := seg.Dictionary("name")
	pl, err := d.PostingsList([]byte("wow"), nil, nil)
	if err != nil {
		t.Fatal(err)
	}
	unknown, _ := seg.Dictionary("nope")
	pl2, err := unknown.PostingsList([]byte("x"), nil, pl)
	if err != nil {
		t.Fatal(err)
	}
	defer func() {
		if r := recover(); r != nil {
			t.Fatalf("Iterator on the empty postings list of an unknown field panicked: %v", r)
		}
	}()
	it, err := pl2.Iterator(true, true, true, nil)
	if err != nil {
		t.Fatal(err)
	}
	p, err := it.Next()
	if err != nil || p != nil {
		t.Fatalf("expected no posting, got %v %v", p, err)
	}
}

// D12: the iterator of an empty postings list (absent term, unknown field) is the
// shared empty iterator, which has no postings list behind it; Count must be 0.
func TestReplayCountOnEmptyIterator(t *testing.T) {
	s, _, err := newWithChunkMode([]segment.Document{
		&FakeDocument{NewFakeField("_id", "a", true, false, false), NewFakeField("name", "wow cool", true, true, false)},
	}, encodeNorm, 1024)
	if err != nil {
		t.Fatal(err)
	}
	seg := s.(*Segment)
	d, _ := seg.Dictionary("name")
	pl, err := d.PostingsList([]byte("absent"), nil, nil)
	if err != nil {
		t.Fatal(err)
	}
	it, err := pl.Iterator(true, true, true, nil)
	if err != nil {
		t.Fatal(err)
	}
	defer func() {
		if r := recover(); r != nil {
			t.Fatalf("Count on the iterator of an absent term panicked: %v", r)
		}
	}()
	if n := it.Count(); n != 0 {
		t.Fatalf("count %d", n)
	}
}

// D13: a doc-value reader whose load of another chunk failed half way keeps the old chunk
// number over the new (partial) header: documents of the old chunk silently lose their values.
func TestReplayDocValueCacheAfterFailedLoad(t *testing.T) {
	var docs []segment.Document
	for i := 0; i < 1100; i++ {
		docs = append(docs, &FakeDocument{
			NewFakeField("_id", fmt.Sprintf("%04d", i), true, false, false),
			NewFakeField("tag", fmt.Sprintf("t%04d", i), false, false, true),
		})
	}
	s, _, err := newWithChunkMode(docs, encodeNorm, 1024)
	if err != nil {
		t.Fatal(err)
	}
	f, err := os.CreateTemp("", "d13")
	if err != nil {
		t.Fatal(err)
	}
	defer os.Remove(f.Name())
	if _, err = s.(*Segment).WriteTo(f, nil); err != nil {
		t.Fatal(err)
	}
	data, err := segment.NewDataFile(f)
	if err != nil {
		t.Fatal(err)
	}
	ls, err := load(data)
	if err != nil {
		t.Fatal(err)
	}
	dvr, _ := ls.DocumentValueReader([]string{"tag"})
	get := func(n uint64) (out []string, err error) {
		defer func() {
			if r := recover(); r != nil {
				err = fmt.Errorf("panic: %v", r)
			}
		}()
		err = dvr.VisitDocumentValues(n, func(field string, term []byte) { out = append(out, string(term)) })
		return
	}
	_, _ = get(7)
	before, err := get(5)
	if err != nil || len(before) != 1 {
		t.Fatalf("doc 5 before: %v %v", before, err)
	}
	// storage starts failing inside the header of chunk 1
	fid := ls.fieldsMap["tag"] - 1
	r := ls.fieldDvReaders[fid]
	pos := int64(r.dvDataLoc + r.chunkOffsets[0] + 40)
	if err := f.Truncate(pos); err != nil {
		t.Fatal(err)
	}
	_, err = get(1030)
	t.Logf("doc 1030 after truncation: err=%v", err)
	after, err := get(5)
	t.Logf("doc 5 after failed load: %v err=%v", after, err)
	if err == nil && (len(after) != 1 || after[0] != before[0]) {
		t.Fatalf("doc 5 after a failed load of another chunk: got %v (err %v), want %v or an error", after, err, before)
	}
	if err != nil && len(err.Error()) > 5 && err.Error()[:5] == "panic" {
		t.Fatalf("panicked: %v", err)
	}
}


// D14: the location chunk fails to load after the freq/norm chunk was loaded: the iterator must
// not take the chunk for loaded on the next call (the location decoder has no reader yet).
func TestReplayChunkLoadFailsBetweenDecoders(t *testing.T) {
	var docs []segment.Document
	for i := 0; i < 6; i++ {
		docs = append(docs, &FakeDocument{
			NewFakeField("_id", fmt.Sprintf("%d", i), true, false, false),
			NewFakeField("desc", "apple ball cat apple", true, true, true),
		})
	}
	s, _, err := newWithChunkMode(docs, encodeNorm, 1024)
	if err != nil {
		t.Fatal(err)
	}
	f, err := os.CreateTemp("", "d14")
	if err != nil {
		t.Fatal(err)
	}
	defer os.Remove(f.Name())
	if _, err = s.(*Segment).WriteTo(f, nil); err != nil {
		t.Fatal(err)
	}
	data, err := segment.NewDataFile(f)
	if err != nil {
		t.Fatal(err)
	}
	ls, err := load(data)
	if err != nil {
		t.Fatal(err)
	}
	d, err := ls.dictionary("desc")
	if err != nil {
		t.Fatal(err)
	}
	pl, err := d.postingsList([]byte("apple"), nil, nil)
	if err != nil {
		t.Fatal(err)
	}
	it, err := pl.iterator(true, true, true, nil)
	if err != nil {
		t.Fatal(err)
	}
	// storage starts failing inside the location stream: the freq/norm chunk is still readable
	if err := f.Truncate(int64(it.locReader.dataStartOffset + 2)); err != nil {
		t.Fatal(err)
	}
	next := func() (err error) {
		defer func() {
			if r := recover(); r != nil {
				err = fmt.Errorf("panic: %v", r)
			}
		}()
		_, err = it.Next()
		return err
	}
	e1 := next()
	if e1 == nil {
		t.Fatalf("expected an error from the first Next")
	}
	for k := 0; k < 3; k++ {
		if e := next(); e != nil && len(e.Error()) > 6 && e.Error()[:6] == "panic:" {
			t.Fatalf("Next #%d after a failed chunk load panicked: %v (first error: %v)", k+2, e, e1)
		}
	}
}
