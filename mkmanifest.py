#!/usr/bin/env python3
"""Regenerates MANIFEST.json from props.json (claimed properties) and properties.jsonl."""
import json
props=[json.loads(l) for l in open('/verif/properties.jsonl')]
cfg=json.load(open('/verif/props.json'))
na=json.load(open('/verif/not_applicable.json'))
hooks=[l.strip() for l in open('/verif/hook_commits.txt') if l.strip()]
checks=[]
for p in props:
    pid=p['id']
    if pid not in cfg or not cfg[pid].get('claimed'): continue
    c=cfg[pid]
    checks.append({
      "property_id": pid,
      "quick_cmd": f"/verif/check {pid} quick",
      "thorough_cmd": f"/verif/check {pid} thorough",
      "evidence_file": f"/verif/evidence/{pid}.json",
      "replay_cmd_template": "cat {path}",
      "engine": "icevc",
      "level_claimed": {"category":"proof","text":c['level_text'],"design_ref":c.get('design_ref','DESIGN.md §4 '+pid)},
      "level_note": c['level_note'],
      "technique": c.get('technique',"contract-based deductive verification: go/ssa -> weakest-precondition VCs -> SMT (z3/cvc5), one query per obligation"),
    })
man={
 "version":1,
 "setup_cmd":"cd /verif/engine && GOFLAGS=-mod=mod GOPROXY=off GOSUMDB=off GOTOOLCHAIN=local go build -o icevc .",
 "hooks":{"guard":"verif","enable":"icevc loads /repo with go/packages BuildFlags -tags=verif (contracts live in the comment-only file contracts_verif.go); replays use go test -overlay and need no tag",
   "baseline_off_cmd":"cd /repo && GOFLAGS=-mod=mod GOPROXY=off GOSUMDB=off go test -vet=off -count=1 ./...",
   "source_commits":hooks,"add_only":True},
 "engines":[{"name":"icevc","path":"/verif/engine","serves_properties":[c['property_id'] for c in checks],
   "kind_free_text":"self-written deductive verifier for Go: contracts (//@ comments in /repo/contracts_verif.go, prelude for dependencies in /verif/prelude) + go/ssa of the working tree -> verification conditions (loop cutting by invariants, modular call rule, frames) -> z3 4.8.12 / z3 5.1.0 / cvc5 1.0.3"}],
 "checks":checks,
 "notes":"See DESIGN.md. Exit 0: every obligation of the property discharged (known findings printed); exit 1: VIOLATION lines; exit 2: machinery failure (vacuity, translation).",
 "not_applicable":[x for x in na if x['property_id'] not in [c['property_id'] for c in checks]],
}
json.dump(man,open('/verif/MANIFEST.json','w'),indent=1)
print(len(checks),'checks;',len(man['not_applicable']),'not applicable')
