#!/usr/bin/env python3
"""Must-fail corpus: every mutant must make its named check report a violation of the named obligation.
usage: selftest/run.py [name-substring ...]   (scratch copies live under /tmp and are removed)"""
import json, os, subprocess, sys, shutil, tempfile, re
V='/verif'
man=json.load(open(f'{V}/selftest/mutants.json'))
sel=sys.argv[1:]
ok=True
for m in man:
    if sel and not any(s in m['name'] for s in sel): continue
    tmp=tempfile.mkdtemp(prefix='icevc-mut-')
    try:
        subprocess.run(['git','-C','/repo','worktree','add','--detach','-f',tmp+'/r','HEAD'],check=True,capture_output=True)
        r=tmp+'/r'
        if os.environ.get('ICE_WORKTREE_CONTRACTS'):
            shutil.copy('/repo/contracts_verif.go', r)  # uncommitted contracts under development (default: the committed hook)
        p=subprocess.run(['git','-C',r,'apply','--unidiff-zero','--recount','-C0',f'{V}/selftest/mutants/{m["name"]}.patch'],capture_output=True,text=True)
        if p.returncode!=0:
            p=subprocess.run(['patch','-p1','-d',r,'-i',f'{V}/selftest/mutants/{m["name"]}.patch'],capture_output=True,text=True)
        if p.returncode!=0:
            print(f'MUTANT {m["name"]}: patch does not apply: {p.stdout}{p.stderr}'); ok=False; continue
        b=subprocess.run(['go','build','./...'],cwd=r,capture_output=True,text=True,env=dict(os.environ,GOFLAGS='-mod=mod',GOPROXY='off',GOSUMDB='off',GOTOOLCHAIN='local'))
        if b.returncode!=0:
            print(f'MUTANT {m["name"]}: does not build: {b.stderr[:300]}'); ok=False; continue
        for prop in m['properties']:
            out=subprocess.run([f'{V}/engine/icevc','check',prop,'quick'],capture_output=True,text=True,env=dict(os.environ,ICE_REPO=r,ICE_EVIDENCE_DIR=tmp+'/ev',ICE_REPLAY_DIR=tmp+'/rp'))
            hit=[l for l in out.stdout.split('\n') if l.startswith('VIOLATION') and m['obligation'] in l]
            if out.returncode==1 and hit:
                print(f'killed   {m["name"]} by {prop}: {hit[0][:160]}')
            else:
                ok=False
                print(f'SURVIVED {m["name"]} under {prop} (exit {out.returncode}); last lines:\n   '+'\n   '.join(out.stdout.strip().split('\n')[-4:]))
    finally:
        subprocess.run(['git','-C','/repo','worktree','remove','--force',tmp+'/r'],capture_output=True)
        shutil.rmtree(tmp,ignore_errors=True)
sys.exit(0 if ok else 1)
