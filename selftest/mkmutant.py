#!/usr/bin/env python3
"""mkmutant.py <name> <file> <old> <new>: records a one-replacement mutant of /repo HEAD as selftest/mutants/<name>.patch"""
import sys, subprocess, tempfile, shutil
name, file, old, new = sys.argv[1:5]
tmp = tempfile.mkdtemp(prefix='icevc-mk-')
try:
    subprocess.run(['git','-C','/repo','worktree','add','--detach','-f',tmp+'/r','HEAD'],check=True,capture_output=True)
    p = tmp+'/r/'+file
    s = open(p).read()
    if s.count(old) != 1:
        sys.exit(f'pattern occurs {s.count(old)} times in {file}')
    open(p,'w').write(s.replace(old,new))
    d = subprocess.run(['git','-C',tmp+'/r','diff'],capture_output=True,text=True).stdout
    open(f'/verif/selftest/mutants/{name}.patch','w').write(d)
    print(d)
finally:
    subprocess.run(['git','-C','/repo','worktree','remove','--force',tmp+'/r'],capture_output=True)
    shutil.rmtree(tmp,ignore_errors=True)
