#!/opt/veriftools/pyvenv/bin/python3
import json,jsonschema,sys,glob
jsonschema.validate(json.load(open('/verif/MANIFEST.json')),json.load(open('/root/.vp/MANIFEST.schema.json'))); print('manifest valid')
sch=json.load(open('/root/.vp/EVIDENCE.schema.json'))
for f in sorted(glob.glob('/verif/evidence/*.json')):
    jsonschema.validate(json.load(open(f)),sch); print(f,'valid')
